"""C17 — tensor (de)serialization is bit-exact for every supported dtype and layout."""
from __future__ import annotations

import asyncio
import itertools
import struct

from common import Ctx

PROP = "C17"
LEAN_MODULE = "TsProofs.Properties.C17"
THEOREMS = [
    "Ts.Serial.C17_tables_bijective",
    "Ts.Serial.C17_element_sizes_equal_torch",
    "Ts.Serial.C17_serializer_choice",
    "Ts.Serial.C17_roundtrip",
    "Ts.Serial.C17_length",
    "Ts.Serial.C17_unsupported_rejected",
    "Ts.Serial.C17_wrong_length_rejected",
    "Ts.Serial.C17_roundtrip_strided",
    "Ts.Serial.C17_gather_shape",
    "Ts.Serial.C17_contiguous_identity",
    "Ts.Serial.C17_torch_save_roundtrip",
    "Ts.Serial.C17_stage_consume_roundtrip",
    "Ts.Serial.C17_untyped_storage_exact",
    "Ts.Serial.C17_codec_assumption_satisfiable",
    "Ts.Serial.C17_witness_float32_view",
]
BUDGET_S = (90, 900)
RULE = ("tables: every supported dtype: dtype_to_string vs str(dtype), string_to_dtype inverse, injectivity, "
        "dtype_to_element_size vs torch.empty((),dtype=d).element_size(), unsupported dtypes/strings raise; all vs the "
        "driver's view of the generated tables. tensors: 12 non-quantized dtypes x shapes with 0..4 dims (element counts "
        "0..N incl. odd, scalars, zero-length dims) x layouts (contiguous, storage offset, transposed, stepped slices, "
        "broadcast/expand, arbitrary overlapping as_strided) x bit patterns (random bytes, NaN payloads incl. signalling, "
        "-0.0, infinities, denormals, integer extremes): real tensor_as_memoryview bytes vs the row-major gather computed "
        "in pure Python from the raw storage and vs the Lean model; tensor_from_memoryview round trip; "
        "torch_save_as_bytes/torch_load_from_bytes; prepare_write -> TensorBufferStager.stage_buffer -> prepare_read -> "
        "TensorBufferConsumer.consume_buffer into no / matching contiguous / matching non-contiguous / mismatching "
        "destinations; wrong-length buffers must raise. quantized (3 dtypes, per-tensor and per-channel): torch_save path "
        "and in-place restore. bounded-exhaustive: all shapes with <=3 dims of sizes 0..2 (quick) / 0..4 (thorough) x 12 "
        "dtypes. A case is non-trivial if the tensor has >=1 element or a zero-length dimension in a >=1-dim shape; "
        "distinct by (dtype, shape, strides, offset, content hash).")
TRUSTED = [
    "torch: Tensor.contiguous()/reshape/numpy bridge/frombuffer/copy_/clone (layout handling) — specified by "
    "Ts.Serial.contiguous and compared with the real code on every run, not proved",
    "torch.save/torch.load as a codec with load(save t) = t (Codec.Lawful) — sampled by the oracle",
    "Ts.Serial.torchItemsizes (PyTorch's element sizes, hand-written) — compared with the installed torch on every run",
]
ASSUMPTIONS = [
    "CPU tensors only (GPU/UVM staging is C09's subject and not installed here)",
    "bool tensors hold only the bytes 0 and 1 (torch's own copy kernels normalise other values)",
    "quantized tensors: the model carries only the int_repr bytes; scale/zero-point travel inside the abstract "
    "torch.save codec and are checked by the oracle only; the per_tensor/per_channel qtensor codecs are unused by "
    "prepare_write and not covered",
    "restoring a quantized tensor without a preallocated destination raises (torch.empty cannot allocate a usable "
    "quantized tensor); this is loud, so it is counted, not reported",
]
LEVEL_TEXT = ("Lean 4 theorems, unbounded in shapes, element counts, contents, strides and offsets: the dtype tables are "
              "bijective and the recorded element sizes equal PyTorch's (decide over tables regenerated from the source on "
              "every run); tensor_as_memoryview followed by tensor_from_memoryview is the identity on (dtype, shape, bits) "
              "for every buffer-protocol dtype incl. bfloat16 with any element count, scalars and zero-length dims, and "
              "for every strided view; the serialized length is element size x numel; a buffer of any other length is "
              "rejected; the torch.save path and the whole prepare_write/stage/prepare_read/consume chain round-trip "
              "under the stated codec assumption. The model is tied to the real functions by differential runs on every "
              "check and the property oracle is evaluated on the real code.")
LEVEL_NOTE = ("Trusted: Lean kernel (+propext, Classical.choice, Quot.sound), the hand model lean/TsModel/Serial.lean, the "
              "table translator, the harness; torch's layout code and torch.save/load are assumed and sampled, not proved.")
TECHNIQUE = "Lean 4 proof over executable model + generated tables (decide) + differential correspondence with the real serializers"

# minimized past failures (run first): D3 = bfloat16 odd counts, D4 = zero-element tensors, scalars
CORPUS = [
    {"kind": "tensor", "dtype": "bfloat16", "raw": [0x80, 0x3F], "shape": [1], "strides": [1], "offset": 0},
    {"kind": "tensor", "dtype": "bfloat16", "raw": [1, 2, 3, 4, 5, 6], "shape": [3], "strides": [1], "offset": 0},
    {"kind": "tensor", "dtype": "bfloat16", "raw": list(range(14)), "shape": [5], "strides": [1], "offset": 2},
    {"kind": "tensor", "dtype": "bfloat16", "raw": list(range(12)), "shape": [3, 2], "strides": [1, 3], "offset": 0},
    {"kind": "tensor", "dtype": "bfloat16", "raw": [], "shape": [0], "strides": [1], "offset": 0},
    {"kind": "tensor", "dtype": "float32", "raw": [], "shape": [0], "strides": [1], "offset": 0},
    {"kind": "tensor", "dtype": "float32", "raw": [], "shape": [2, 0], "strides": [1, 1], "offset": 0},
    {"kind": "tensor", "dtype": "int64", "raw": [], "shape": [0, 3], "strides": [3, 1], "offset": 0},
    {"kind": "tensor", "dtype": "float64", "raw": [1, 0, 0, 0, 0, 0, 0xF8, 0x7F], "shape": [], "strides": [], "offset": 0},
    {"kind": "tensor", "dtype": "bool", "raw": [1, 0, 1], "shape": [3], "strides": [1], "offset": 0},
    {"kind": "tensor", "dtype": "complex64", "raw": [0, 0, 0xC0, 0x7F, 0, 0, 0, 0x80], "shape": [1], "strides": [1], "offset": 0},
    {"kind": "tensor", "dtype": "uint8", "raw": [7, 8], "shape": [2, 2], "strides": [0, 1], "offset": 0},
]

# D18 (known finding): in-place restore into a quantized tensor with other qparams keeps the destination's qparams
CORPUS_QUANT = [
    {"kind": "quant", "dtype": "qint8", "raw": [1, 2, 3], "shape": [3], "scheme": "per_tensor",
     "qparams": {"scale": (0.25).hex(), "zp": 7}, "other_qparams": {"scale": (0.5).hex(), "zp": 1}, "transpose": False},
    {"kind": "quant", "dtype": "quint8", "raw": [1, 2, 3, 4], "shape": [2, 2], "scheme": "per_channel",
     "qparams": {"scales": [(0.5).hex(), (0.25).hex()], "zps": [1, 2], "axis": 0},
     "other_qparams": {"scales": [(1.0).hex(), (0.25).hex()], "zps": [1, 3], "axis": 0}, "transpose": False},
]

NONQUANT = ["float64", "float32", "float16", "bfloat16", "complex128", "complex64",
            "int64", "int32", "int16", "int8", "uint8", "bool"]
QUANT = {"qint32": "int32", "qint8": "int8", "quint8": "uint8"}
UNSUPPORTED = ["uint16", "uint32", "uint64", "float8_e4m3fn", "float8_e5m2", "complex32"]


# --------------------------------------------------------------------------------------
# helpers
# --------------------------------------------------------------------------------------

def _le(v, n):
    return list(int(v).to_bytes(n, "little", signed=False))


def _float_specials(bits_list, n):
    return [_le(b, n) for b in bits_list]


_F64 = [0x0, 0x8000000000000000, 0x7FF0000000000000, 0xFFF0000000000000, 0x7FF8000000000000,
        0x7FF8000000000001, 0xFFF8DEADBEEF1234, 0x7FF0000000000001, 0x7FF4000000000000, 0x1,
        0x000FFFFFFFFFFFFF, 0x7FEFFFFFFFFFFFFF, 0xFFEFFFFFFFFFFFFF, 0x3FF0000000000000]
_F32 = [0x0, 0x80000000, 0x7F800000, 0xFF800000, 0x7FC00000, 0x7FC00001, 0xFFC12345, 0x7F800001,
        0x7FA00000, 0x1, 0x007FFFFF, 0x7F7FFFFF, 0xFF7FFFFF, 0x3F800000]
_F16 = [0x0, 0x8000, 0x7C00, 0xFC00, 0x7E00, 0x7E01, 0xFE55, 0x7C01, 0x7D00, 0x1, 0x03FF, 0x7BFF, 0xFBFF, 0x3C00]
_BF16 = [0x0, 0x8000, 0x7F80, 0xFF80, 0x7FC0, 0x7FC1, 0xFFD5, 0x7F81, 0x7FA0, 0x1, 0x007F, 0x7F7F, 0xFF7F, 0x3F80]


def _int_specials(n, signed):
    vals = [0, 1, (1 << (8 * n)) - 1]  # 0, 1, all ones (-1 / max unsigned)
    if signed:
        vals += [1 << (8 * n - 1), (1 << (8 * n - 1)) - 1]  # min, max
    else:
        vals += [1 << (8 * n - 1), (1 << (8 * n - 1)) - 1]
    return [_le(v, n) for v in vals]


def elem_specials(dtype):
    if dtype == "float64":
        return _float_specials(_F64, 8)
    if dtype == "float32":
        return _float_specials(_F32, 4)
    if dtype == "float16":
        return _float_specials(_F16, 2)
    if dtype == "bfloat16":
        return _float_specials(_BF16, 2)
    if dtype == "complex128":
        f = _float_specials(_F64, 8)
        return [a + b for a in f[:7] for b in f[1:8]]
    if dtype == "complex64":
        f = _float_specials(_F32, 4)
        return [a + b for a in f[:7] for b in f[1:8]]
    if dtype == "bool":
        return [[0], [1]]
    sizes = {"int64": 8, "int32": 4, "int16": 2, "int8": 1, "uint8": 1}
    return _int_specials(sizes[dtype], dtype != "uint8")


def fill_storage(rng, dtype, es, n_elems):
    """`n_elems` elements of raw bytes in one of several patterns. Returns (bytes list, pattern name)."""
    if dtype == "bool":
        mode = rng.choice(["random", "zeros", "ones"])
        if mode == "random":
            return [rng.randrange(2) for _ in range(n_elems)], "bool-random"
        return [0 if mode == "zeros" else 1] * n_elems, "bool-" + mode
    mode = rng.choice(["random", "random", "specials", "specials", "mixed", "zeros", "ff", "ramp"])
    if mode == "random":
        return [rng.randrange(256) for _ in range(n_elems * es)], mode
    if mode == "zeros":
        return [0] * (n_elems * es), mode
    if mode == "ff":
        return [255] * (n_elems * es), mode
    if mode == "ramp":
        return [(i * 7 + 3) % 256 for i in range(n_elems * es)], mode
    sp = elem_specials(dtype)
    out = []
    for _ in range(n_elems):
        if mode == "specials" or rng.random() < 0.5:
            out += rng.choice(sp)
        else:
            out += [rng.randrange(256) for _ in range(es)]
    return out, mode


def numel(shape):
    n = 1
    for s in shape:
        n *= s
    return n


def rowmajor(shape):
    st, acc = [], 1
    for s in reversed(shape):
        st.append(acc)
        acc *= s
    return list(reversed(st))


def gather(raw, es, shape, strides, off):
    """Row-major logical contents of a strided view, computed without torch."""
    out = bytearray()
    for idx in itertools.product(*[range(s) for s in shape]):
        o = off + sum(i * s for i, s in zip(idx, strides))
        out += bytes(raw[o * es:(o + 1) * es])
    return bytes(out)


def gen_shape(rng, maxel):
    r = rng.random()
    if r < 0.08:
        return []
    if r < 0.30:
        return [rng.choice([0, 1, 2, 3, 5, 7, 9, 17, 31, 33, 63, 65, 127, 129, 255, 257, 1001, rng.randint(0, maxel)]) % (maxel + 1)]
    nd = rng.choice([1, 2, 2, 2, 3, 3, 4, 4, 4, 5])
    dims = [rng.choice([0, 1, 1, 2, 2, 3, 3, 4, 5, 7, rng.randint(0, 9)]) for _ in range(nd)]
    while numel(dims) > maxel:
        i = max(range(nd), key=lambda k: dims[k])
        dims[i] = max(1, dims[i] // 2)
    return dims


def gen_layout(rng, shape):
    """Returns (layout name, storage element count, strides, offset)."""
    nd = len(shape)
    n = numel(shape)
    kinds = ["contig", "offset", "strided", "expand", "overlap"]
    if nd >= 2:
        kinds += ["transposed", "transposed", "transposed_offset"]
    if nd in (4, 5):
        kinds += ["channels_last"] * 4          # dense but not row-major (torch.channels_last / channels_last_3d)
    kind = rng.choice(kinds)
    if kind == "channels_last":
        # physical order N, spatial..., C : strides of dim 1 (C) = 1
        phys = [0] + list(range(2, nd)) + [1]
        base = [shape[p] for p in phys]
        bst = rowmajor(base)
        strides = [0] * nd
        for k, p in enumerate(phys):
            strides[p] = bst[k]
        return kind, n, strides, 0
    if kind == "contig":
        return kind, n, rowmajor(shape), 0
    if kind == "offset":
        off = rng.randint(1, 5)
        return kind, off + n + rng.randint(0, 3), rowmajor(shape), off
    if kind in ("transposed", "transposed_offset"):
        perm = list(range(nd))
        while perm == list(range(nd)):
            rng.shuffle(perm)
        base = [shape[p] for p in perm]
        bst = rowmajor(base)
        strides = [0] * nd
        for k, p in enumerate(perm):
            strides[p] = bst[k]
        off = rng.randint(1, 4) if kind == "transposed_offset" else 0
        return kind, off + n + (rng.randint(0, 2) if off else 0), strides, off
    if kind == "strided":
        steps = [rng.randint(1, 3) for _ in range(nd)]
        starts = [rng.randint(0, 1) for _ in range(nd)]
        base = [starts[i] + shape[i] * steps[i] + rng.randint(0, 1) for i in range(nd)]
        base = [max(b, 1) for b in base]
        bst = rowmajor(base)
        return kind, max(numel(base), 1), [bst[i] * steps[i] for i in range(nd)], sum(starts[i] * bst[i] for i in range(nd))
    if kind == "expand":
        bdims = [rng.random() < 0.5 for _ in range(nd)]
        if nd and not any(bdims):
            bdims[rng.randrange(nd)] = True
        base = [1 if bdims[i] else shape[i] for i in range(nd)]
        bst = rowmajor(base)
        return kind, max(numel(base), 1), [0 if bdims[i] else bst[i] for i in range(nd)], 0
    # overlap: arbitrary (possibly overlapping) strides
    strides = [rng.randint(0, 4) for _ in range(nd)]
    off = rng.randint(0, 3)
    need = off + sum((shape[i] - 1) * strides[i] for i in range(nd)) + 1 if n > 0 else off
    return kind, need + rng.randint(0, 2), strides, off


def _errname(e):
    return type(e).__name__


# --------------------------------------------------------------------------------------
# the checks
# --------------------------------------------------------------------------------------

class _Env:
    """Lazily imported real modules + one event loop."""

    def __init__(self):
        import torch
        from torchsnapshot import serialization as S
        from torchsnapshot.io_preparers import tensor as T
        self.torch, self.S, self.T = torch, S, T
        self.loop = asyncio.new_event_loop()

    def dt(self, name):
        return getattr(self.torch, name)

    def bits(self, r):
        """Logical row-major bytes of a result tensor, via numpy (not via tensor_as_memoryview)."""
        torch = self.torch
        if r.is_quantized:
            r = r.int_repr()
        if r.is_complex() and r.is_conj():
            r = r.resolve_conj()
        if r.dtype == torch.bfloat16:
            r = r.view(torch.int16)
        return r.detach().numpy().tobytes()

    def mk(self, dtype, raw, shape, strides, offset):
        torch = self.torch
        d = self.dt(dtype)
        es = torch.empty((), dtype=d).element_size()
        if len(raw) == 0:
            storage = torch.empty(0, dtype=d)
        else:
            storage = torch.frombuffer(bytearray(raw), dtype=d)
        return torch.as_strided(storage, shape, strides, offset), es

    def run(self, coro):
        return self.loop.run_until_complete(coro)


_ENV = None


def env():
    global _ENV
    if _ENV is None:
        _ENV = _Env()
    return _ENV


def _drv(ctx, ops):
    if not ctx.driver:
        return None
    return ctx.driver.call_many(ops)


def _canon_err(rep):
    """Driver reply -> 'raise' for the modelled Python exceptions (class not compared: a refactor may
    legitimately change ValueError <-> RuntimeError)."""
    if isinstance(rep, dict) and "err" in rep:
        return "raise" if rep["err"] in ("ValueError", "RuntimeError") else rep["err"]
    return None


def check_tables(ctx: Ctx, verbose=False):
    E = env()
    torch, S, T = E.torch, E.S, E.T
    rep = _drv(ctx, [{"op": "serial_tables"}])
    model = rep[0] if rep else None
    rows = {r["dtype"]: r for r in model["supported"]} if model else {}
    impl_names = [str(d)[6:] for d in S.ALL_SUPPORTED_DTYPES]
    if model and impl_names != [r["dtype"] for r in model["supported"]]:
        ctx.disagree("tables", {"kind": "tables", "what": "ALL_SUPPORTED_DTYPES"}, impl_names, [r["dtype"] for r in model["supported"]])
    seen = {}
    for d in S.ALL_SUPPORTED_DTYPES:
        name = str(d)[6:]
        inp = {"kind": "tables", "dtype": name}
        obs = {}
        try:
            s = S.dtype_to_string(d)
            obs["string"] = s
        except Exception as e:
            s = None
            obs["string"] = {"err": _errname(e)}
            ctx.fail("dtype-string-raises", "dtype_to_string raised for a supported dtype", inp, obs)
        if s is not None:
            if s != str(d):
                ctx.fail("dtype-string-differs", "dtype_to_string(d) differs from PyTorch's str(d)", inp, {"got": s, "expected": str(d)})
            if s in seen:
                ctx.fail("dtype-string-not-injective", "two supported dtypes share one string", inp, {"string": s, "other": seen[s]})
            seen[s] = name
            try:
                back = S.string_to_dtype(s)
                obs["back"] = str(back)[6:]
                if back != d:
                    ctx.fail("dtype-string-not-inverse", "string_to_dtype(dtype_to_string(d)) != d", inp, {"string": s, "back": str(back)})
            except Exception as e:
                obs["back"] = {"err": _errname(e)}
                ctx.fail("dtype-string-not-inverse", "string_to_dtype rejected the string dtype_to_string produced", inp, obs)
        real_es = torch.empty((), dtype=d).element_size()
        try:
            es = S.dtype_to_element_size(d)
            obs["element_size"] = es
            if es != real_es:
                ctx.fail("element-size-differs-from-torch", "recorded element size differs from torch's element_size()",
                         inp, {"recorded": es, "torch": real_es})
        except Exception as e:
            obs["element_size"] = {"err": _errname(e)}
            ctx.fail("element-size-missing", "dtype_to_element_size raised for a supported dtype", inp, obs)
        obs["buffer_protocol"] = d in S.BUFFER_PROTOCOL_SUPPORTED_DTYPES
        obs["quantized"] = d in S.SUPPORTED_QUANTIZED_DTYPES
        # serializer chosen by the real prepare_write
        try:
            if name in QUANT:
                probe = torch._make_per_tensor_quantized_tensor(torch.zeros(1, dtype=E.dt(QUANT[name])), 1.0, 0)
            else:
                probe = torch.zeros(1, dtype=d)
            entry, _ = T.TensorIOPreparer.prepare_write("p", probe)
            obs["serializer"] = entry.serializer
        except Exception as e:
            obs["serializer"] = {"err": _errname(e)}
        if model:
            r = rows.get(name, {})
            m = {k: r.get(k) for k in ("string", "back", "element_size", "buffer_protocol", "quantized", "serializer")}
            if m != {k: obs.get(k) for k in m}:
                ctx.disagree("tables", inp, obs, r)
            if r.get("torch_itemsize") != real_es or r.get("torch_str") != str(d):
                ctx.disagree("tables", inp, {"torch_itemsize": real_es, "torch_str": str(d)}, r,
                             note="the model's reference values for PyTorch are wrong")
        if verbose:
            print("impl :", name, obs)
            print("model:", name, rows.get(name))
        ctx.case("tables", {"dtype": name, **obs}, nontrivial=True, key=name)
        ctx.count("tables.dtype")
    # the model's hand-written PyTorch element sizes (all rows, incl. unsupported dtypes)
    if model:
        for name, n in model["torch_itemsizes"]:
            if hasattr(torch, name):
                try:
                    real = torch.empty((), dtype=getattr(torch, name)).element_size()
                except Exception:
                    continue
                if real != n:
                    ctx.disagree("tables", {"kind": "tables", "dtype": name}, {"torch_itemsize": real}, {"torch_itemsize": n})
        impl_s2d = sorted((k, str(v)[6:]) for k, v in S._STRING_TO_DTYPE.items())
        if impl_s2d != sorted((a, b) for a, b in model["string_to_dtype"]):
            ctx.disagree("tables", {"kind": "tables", "what": "_STRING_TO_DTYPE"}, impl_s2d, model["string_to_dtype"])
    # unsupported dtypes and malformed strings must raise
    for name in UNSUPPORTED:
        if not hasattr(torch, name):
            continue
        d = getattr(torch, name)
        inp = {"kind": "tables", "dtype": name, "unsupported": True}
        outs = {}
        for fn in ("dtype_to_string", "dtype_to_element_size"):
            try:
                getattr(S, fn)(d)
                outs[fn] = "ok"
                ctx.fail("unsupported-dtype-accepted", f"{fn} accepted a dtype outside ALL_SUPPORTED_DTYPES", inp, outs)
            except ValueError:
                outs[fn] = "raise"
        if model:
            r = _drv(ctx, [{"op": "dtype_row", "dtype": name}])[0]
            m = {"dtype_to_string": _canon_err(r["string"]) or "ok", "dtype_to_element_size": _canon_err(r["element_size"]) or "ok"}
            if m != outs:
                ctx.disagree("tables", inp, outs, r)
        ctx.case("tables_unsupported", {"dtype": name, **outs}, nontrivial=True, key=name)
    strings = ["", "float32", "torch.float", "torch.float32 ", "Torch.float32", "torch.uint16", "torch.float8_e5m2",
               "torch.qint4", "torch.complex32", "torch.float32\n", "torch..float32", "torch.bfloat16", "torch.bool",
               "torch.quint8", "torch.int", "torch.long", "torch.double", "torch.half"]
    reps = _drv(ctx, [{"op": "string_to_dtype", "s": s} for s in strings])
    for i, s in enumerate(strings):
        try:
            got = str(S.string_to_dtype(s))[6:]
        except ValueError:
            got = "raise"
        if reps:
            m = reps[i]["dtype"]
            m = _canon_err(m) or m
            if m != got:
                ctx.disagree("tables", {"kind": "tables", "string": s}, got, reps[i])
        if got != "raise" and "torch." + got != s:
            ctx.fail("dtype-string-not-inverse", "string_to_dtype accepted a string that is not the dtype's own", {"kind": "tables", "string": s}, got)
        ctx.case("tables_strings", {"s": s, "out": got}, nontrivial=True, key=s)


def check_tensor(ctx: Ctx, spec, suite="tensor", light=False, verbose=False):
    """All checks for one non-quantized tensor case fully determined by `spec`."""
    E = env()
    torch, S, T = E.torch, E.S, E.T
    name, raw, shape, strides, offset = spec["dtype"], spec["raw"], spec["shape"], spec["strides"], spec["offset"]
    d = E.dt(name)
    t, es = E.mk(name, raw, shape, strides, offset)
    if spec.get("conj") and name.startswith("complex"):
        # the same logical values as a LAZILY conjugated view (conj bit set) of a storage holding the conjugates:
        # what `x.conj()[a:b]`, `.mH` or `.adjoint()` hand to a state dict
        sc = torch.as_strided(t, [t.untyped_storage().nbytes() // es], [1], 0).conj_physical() if t.untyped_storage().nbytes() else t
        if t.untyped_storage().nbytes():
            t = torch.as_strided(sc, shape, strides, offset).conj()
    if list(t.stride()) != list(strides) or t.storage_offset() != offset:
        raise RuntimeError(f"harness: as_strided did not give the requested layout {t.stride()} {strides}")
    n = numel(shape)
    expected = gather(raw, es, shape, strides, offset)
    # independent cross-check of the expectation itself (numpy's own strided copy)
    if len(expected) != es * n or E.bits(t) != expected:
        raise RuntimeError("harness: pure-Python gather disagrees with numpy")
    is_bp = d in S.BUFFER_PROTOCOL_SUPPORTED_DTYPES
    view = {"dtype": name, "storage": list(raw), "offset": offset, "shape": list(shape), "strides": list(strides)}
    ops, tags = [], []
    obs = {}

    # 1. tensor_as_memoryview
    got = None
    try:
        mv = S.tensor_as_memoryview(t)
        got = bytes(mv)
        obs["as_memoryview"] = {"len": len(got)}
    except Exception as e:
        obs["as_memoryview"] = {"err": _errname(e)}
    if is_bp:
        if got is None:
            ctx.fail("as-memoryview-raises", "tensor_as_memoryview raised for a buffer-protocol dtype", spec, obs["as_memoryview"])
        else:
            if got != expected:
                k = next((i for i in range(min(len(got), len(expected))) if got[i] != expected[i]), min(len(got), len(expected)))
                ctx.fail("as-memoryview-bytes-differ", "tensor_as_memoryview bytes differ from the tensor's row-major contents",
                         spec, {"len_got": len(got), "len_expected": len(expected), "first_diff": k,
                                "got": list(got[:48]), "expected": list(expected[:48])})
            try:
                rec_es = S.dtype_to_element_size(d)
            except Exception:
                rec_es = None
            if rec_es is None or len(got) != rec_es * n:
                ctx.fail("as-memoryview-length", "serialized length != recorded element size x element count",
                         spec, {"len": len(got), "recorded_element_size": rec_es, "numel": n})
    elif got is not None:
        ctx.fail("unsupported-dtype-accepted", "tensor_as_memoryview accepted a dtype outside BUFFER_PROTOCOL_SUPPORTED_DTYPES", spec, obs["as_memoryview"])
    ops.append({"op": "as_memoryview", "view": view}); tags.append("as_mv")

    # 2. tensor_from_memoryview (on the expected bytes, so a broken exporter does not mask the importer)
    try:
        r = S.tensor_from_memoryview(memoryview(expected), d, list(shape))
        rb = E.bits(r)
        obs["from_memoryview"] = {"dtype": str(r.dtype)[6:], "shape": list(r.shape), "len": len(rb)}
        if r.dtype != d or list(r.shape) != list(shape) or rb != expected:
            ctx.fail("from-memoryview-roundtrip", "tensor_from_memoryview returned a different dtype/shape/bits", spec,
                     {**obs["from_memoryview"], "bits_equal": rb == expected})
    except Exception as e:
        obs["from_memoryview"] = {"err": _errname(e)}
        ctx.fail("from-memoryview-raises", "tensor_from_memoryview raised on a buffer of the right length", spec, obs["from_memoryview"])
    ops.append({"op": "from_memoryview", "dtype": name, "shape": list(shape), "buf": list(expected)}); tags.append("from_mv")

    if not light:
        # 3. wrong-length buffers must raise
        L = len(expected)
        cands = sorted({x for x in (L - 1, L + 1, L - es, L + es, 0, es, 2 * L, L // 2) if x >= 0 and x != L})
        wl = ctx.rng.sample(cands, min(3, len(cands)))
        obs["wrong_length"] = {}
        for wlen in wl:
            buf = bytes((i * 5 + 1) % 2 if name == "bool" else (i * 5 + 1) % 256 for i in range(wlen))
            outs = []
            try:
                S.tensor_from_memoryview(memoryview(buf), d, list(shape))
                outs.append("ok")
            except Exception:
                outs.append("raise")
            if is_bp:
                ent = T.TensorEntry(location="p", serializer=S.Serializer.BUFFER_PROTOCOL.value, dtype=str(d), shape=list(shape), replicated=False)
                try:
                    E.run(T.TensorBufferConsumer(tensor=torch.zeros(shape, dtype=d), entry=ent).consume_buffer(buf))
                    outs.append("ok")
                except Exception:
                    outs.append("raise")
            obs["wrong_length"][wlen] = outs
            if "ok" in outs:
                ctx.fail("wrong-length-accepted", "a buffer whose length is not element size x numel was accepted",
                         {**spec, "wrong_len": wlen}, {"right_len": L, "outs": outs})
            ops.append({"op": "from_memoryview", "dtype": name, "shape": list(shape), "buf": list(buf)}); tags.append(("wrong", wlen))
            ctx.count("wrong_length.cases")

        # 4. torch.save / torch.load
        try:
            l = S.torch_load_from_bytes(S.torch_save_as_bytes(t))
            lb = E.bits(l)
            obs["torch_save"] = {"dtype": str(l.dtype)[6:], "shape": list(l.shape)}
            if l.dtype != d or list(l.shape) != list(shape) or lb != expected:
                ctx.fail("torch-save-roundtrip", "torch_load_from_bytes(torch_save_as_bytes(t)) differs from t", spec,
                         {**obs["torch_save"], "bits_equal": lb == expected})
        except Exception as e:
            obs["torch_save"] = {"err": _errname(e)}
            ctx.fail("torch-save-roundtrip", "torch_save_as_bytes/torch_load_from_bytes raised", spec, obs["torch_save"])

        # 5. prepare_write -> stage_buffer -> prepare_read -> consume_buffer
        dmode = spec.get("dst", "none")
        is_async = bool(spec.get("async", False))
        try:
            entry, wrs = T.TensorIOPreparer.prepare_write("loc", t, is_async_snapshot=is_async)
            staged = bytes(E.run(wrs[0].buffer_stager.stage_buffer()))
            obs["entry"] = {"serializer": entry.serializer, "dtype": entry.dtype, "shape": list(entry.shape)}
            if entry.dtype != str(d) or list(entry.shape) != list(shape):
                ctx.fail("entry-dtype-shape", "prepare_write recorded a dtype string / shape that is not the tensor's", spec, obs["entry"])
            if entry.serializer == "buffer_protocol":
                if staged != expected:
                    ctx.fail("stage-buffer-bytes-differ", "TensorBufferStager staged bytes differ from the row-major contents", spec,
                             {"len_got": len(staged), "len_expected": len(expected)})
            # destination
            junk_n = es * n
            jr = [ctx.rng.randrange(2) if name == "bool" else ctx.rng.randrange(256) for _ in range(junk_n)]
            dst = None
            if dmode == "match":
                dst = torch.frombuffer(bytearray(jr), dtype=d).reshape(shape) if n else torch.empty(shape, dtype=d)
            elif dmode == "match_nc":
                if n:
                    base = torch.frombuffer(bytearray(jr + jr + [0] * (3 * es)), dtype=d)
                    dst = torch.as_strided(base, shape, [2 * s for s in rowmajor(shape)], 1)
                else:
                    dst = torch.empty(shape, dtype=d)
            elif dmode == "mismatch_dtype":
                dst = torch.zeros(shape, dtype=torch.int16 if d != torch.int16 else torch.int32)
            elif dmode == "mismatch_shape":
                dst = torch.zeros(list(shape) + [2], dtype=d)
            dst_before = E.bits(dst) if dst is not None else None
            rrs, fut = T.TensorIOPreparer.prepare_read(entry, tensor_out=dst)
            if len(rrs) != 1:
                raise RuntimeError("harness: prepare_read without a size limit returned several requests")
            E.run(rrs[0].buffer_consumer.consume_buffer(staged))
            res = fut.obj
            resb = E.bits(res)
            inplace = res is dst
            obs["consume"] = {"dtype": str(res.dtype)[6:], "shape": list(res.shape), "inplace": inplace, "bits_equal": resb == expected}
            if res.dtype != d or list(res.shape) != list(shape) or resb != expected:
                ctx.fail("stage-consume-roundtrip", "stage_buffer -> consume_buffer did not reproduce dtype/shape/bits",
                         spec, {**obs["consume"], "got": list(resb[:48]), "expected": list(expected[:48])})
            if dmode in ("match", "match_nc") and not inplace:
                ctx.fail("stage-consume-not-inplace", "a destination of matching dtype and shape was not loaded in place", spec, obs["consume"])
            ops.append({"op": "serializer_for", "dtype": name, "shape": list(shape)}); tags.append("entry")
            if entry.serializer == "buffer_protocol":
                tv = {"dtype": name, "shape": list(shape), "bytes": list(expected)}
                ops.append({"op": "stage", "entry": obs["entry"], "tensor": tv}); tags.append("stage")
                dj = None
                if dst is not None:
                    dj = {"dtype": str(dst.dtype)[6:], "shape": list(dst.shape), "bytes": list(dst_before)}
                ops.append({"op": "consume", "entry": obs["entry"], "buf": list(staged), "dst": dj}); tags.append("consume")
            else:
                tv = {"dtype": name, "shape": list(shape), "bytes": list(expected)}
                dj = None
                if dst is not None:
                    dj = {"dtype": str(dst.dtype)[6:], "shape": list(dst.shape), "bytes": list(dst_before)}
                ops.append({"op": "save_then_load", "tensor": tv, "dst": dj}); tags.append("save_then_load")
            # 5b. the same through TILED reads (buffer size limit below the tensor) into a matching destination that is a
            #     non-flattenable view (a column block of a wider buffer): tiles are consumed in shuffled order
            if entry.serializer == "buffer_protocol" and n > 1 and len(shape) >= 2 and shape[-1] >= 1:
                wide_shape = list(shape[:-1]) + [shape[-1] + 3]
                wn = 1
                for x_ in wide_shape:
                    wn *= x_
                wide = torch.frombuffer(bytearray([ctx.rng.randrange(2) if name == "bool" else ctx.rng.randrange(256) for _ in range(es * wn)]),
                                        dtype=d).reshape(wide_shape)
                tdst = wide[..., : shape[-1]]
                limit = ctx.rng.choice([es, max(es, (es * n) // 3), max(es, es * n - 1)])
                trrs, tfut = T.TensorIOPreparer.prepare_read(entry, tensor_out=tdst, buffer_size_limit_bytes=limit)
                order_ = list(range(len(trrs)))
                ctx.rng.shuffle(order_)
                for i_ in order_:
                    br = trrs[i_].byte_range
                    E.run(trrs[i_].buffer_consumer.consume_buffer(staged if br is None else staged[br[0]:br[1]]))
                tres = tfut.obj
                if tres.dtype != d or list(tres.shape) != list(shape) or E.bits(tres) != expected:
                    ctx.fail("stage-consume-roundtrip", "tiled reads into a matching non-flattenable destination did not reproduce dtype/shape/bits",
                             dict(spec, tiled_limit=limit, tiles=len(trrs), dst="column block of a wider buffer"),
                             {"dtype": str(tres.dtype)[6:], "shape": list(tres.shape), "got": list(E.bits(tres)[:48]), "expected": list(expected[:48])})
                ctx.count("e2e.tiled_nonflat_dst")
                ctx.count("e2e.tiled_nonflat_dst.tiles", len(trrs))
            ctx.count("e2e.serializer." + entry.serializer)
            ctx.count("e2e.dst." + dmode)
            ctx.count("e2e.async" if is_async else "e2e.sync")
        except Exception as e:
            obs["consume"] = {"err": _errname(e), "msg": str(e)[:200]}
            ctx.fail("stage-consume-raises", "prepare_write/stage_buffer/prepare_read/consume_buffer raised on a supported tensor", spec, obs["consume"])

    # ---- model side -----------------------------------------------------------------------
    reps = _drv(ctx, ops)
    if reps is not None:
        for tag, op, rep in zip(tags, ops, reps):
            if tag == "as_mv":
                impl = {"bytes": list(got)} if got is not None else "raise"
                model = _canon_err(rep) or rep
                if impl != model:
                    ctx.disagree(suite + ".as_memoryview", spec, _short(impl), _short(model))
            elif tag == "from_mv":
                impl = obs["from_memoryview"]
                if "err" in impl:
                    impl_c = "raise"
                else:
                    impl_c = {"dtype": impl["dtype"], "shape": impl["shape"], "bytes": list(E.bits(r))}
                model = _canon_err(rep) or rep.get("tensor")
                if impl_c != model:
                    ctx.disagree(suite + ".from_memoryview", spec, _short(impl_c), _short(model))
            elif isinstance(tag, tuple) and tag[0] == "wrong":
                impl = "ok" if obs["wrong_length"][tag[1]][0] == "ok" else "raise"
                model = _canon_err(rep) or "ok"
                if impl != model:
                    ctx.disagree(suite + ".wrong_length", {**spec, "wrong_len": tag[1]}, impl, rep)
            elif tag == "entry":
                if rep.get("entry") != obs["entry"]:
                    ctx.disagree(suite + ".prepare_write", spec, obs["entry"], rep)
            elif tag == "stage":
                if rep != {"bytes": list(staged)}:
                    ctx.disagree(suite + ".stage_buffer", spec, {"len": len(staged)}, _short(rep))
            elif tag in ("consume", "save_then_load"):
                model_t = rep.get("tensor")
                impl_t = {"dtype": obs["consume"]["dtype"], "shape": obs["consume"]["shape"], "bytes": list(resb)}
                if model_t != impl_t or (tag == "consume" and rep.get("inplace") != inplace):
                    ctx.disagree(suite + ".consume_buffer", spec, _short({"tensor": impl_t, "inplace": inplace}), _short(rep))
    if verbose:
        print("spec    :", {k: (v if k != "raw" else f"<{len(v)} bytes> {v[:32]}") for k, v in spec.items()})
        print("expected:", list(expected[:64]), f"({len(expected)} bytes)")
        print("impl    :", obs, "as_memoryview bytes:", None if got is None else list(got[:64]))
        if reps is not None:
            for tag, rep in zip(tags, reps):
                print("model   :", tag, _short(rep))
    return obs


def _short(o, limit=600):
    s = repr(o)
    return o if len(s) <= limit else s[:limit] + "..."


def check_untyped_slice(ctx: Ctx, spec, verbose=False):
    """contiguous_view_as_untyped_storage on a contiguous view at a storage offset (any dtype)."""
    E = env()
    S = E.S
    t, es = E.mk(spec["dtype"], spec["raw"], spec["shape"], rowmajor(spec["shape"]), spec["offset"])
    if not t.is_contiguous():
        return
    n = numel(spec["shape"])
    expected = bytes(spec["raw"][spec["offset"] * es:(spec["offset"] + n) * es])
    try:
        st = S.contiguous_view_as_untyped_storage(t)
        got = bytes(st.tolist()) if hasattr(st, "tolist") else bytes(st)
    except Exception as e:
        got = None
        ctx.fail("untyped-storage-raises", "contiguous_view_as_untyped_storage raised on a contiguous tensor", spec, _errname(e))
    if got is not None and got != expected:
        ctx.fail("untyped-storage-bytes-differ", "contiguous_view_as_untyped_storage returned bytes other than the tensor's", spec,
                 {"len_got": len(got), "len_expected": len(expected)})
    rep = _drv(ctx, [{"op": "untyped_slice", "storage": list(spec["raw"]), "offset": spec["offset"], "numel": n, "es": es}])
    if rep is not None and got is not None and rep[0] != {"bytes": list(got)}:
        ctx.disagree("untyped_slice", spec, {"len": len(got)}, _short(rep[0]))
    if verbose:
        print("impl :", None if got is None else list(got[:64]))
        print("model:", rep)
    ctx.case("untyped_slice", {k: v for k, v in spec.items() if k != "raw"}, nontrivial=n > 0, key=spec)


def check_quant(ctx: Ctx, spec, verbose=False):
    """Quantized tensors go through torch.save only (what prepare_write chooses)."""
    E = env()
    torch, S, T = E.torch, E.S, E.T
    name, shape = spec["dtype"], spec["shape"]
    d = E.dt(name)
    ir, _ = E.mk(QUANT[name], spec["raw"], shape, rowmajor(shape), 0)
    ir = ir.clone()

    def make(int_repr, qp):
        if spec["scheme"] == "per_tensor":
            return torch._make_per_tensor_quantized_tensor(int_repr, float.fromhex(qp["scale"]), qp["zp"])
        return torch._make_per_channel_quantized_tensor(
            int_repr, torch.tensor([float.fromhex(x) for x in qp["scales"]], dtype=torch.float64),
            torch.tensor(qp["zps"], dtype=torch.int64), qp["axis"])

    def qparams(q):
        if q.qscheme() == torch.per_tensor_affine:
            return ("per_tensor", float(q.q_scale()).hex(), int(q.q_zero_point()))
        return ("per_channel", [float(x).hex() for x in q.q_per_channel_scales().tolist()],
                [int(x) for x in q.q_per_channel_zero_points().tolist()], int(q.q_per_channel_axis()))

    try:
        q = make(ir, spec["qparams"])
        make(torch.zeros_like(ir), spec["other_qparams"])
    except Exception:
        ctx.count("quant.torch_cannot_construct")
        return
    if spec.get("transpose") and len(shape) >= 2:
        q = q.transpose(0, 1) if spec["scheme"] == "per_tensor" else q
    expected = E.bits(q)
    qshape = list(q.shape)
    obs = {}
    # exporter refuses quantized dtypes
    try:
        S.tensor_as_memoryview(q)
        ctx.fail("unsupported-dtype-accepted", "tensor_as_memoryview accepted a quantized tensor", spec, None)
    except Exception as e:
        obs["as_memoryview"] = _errname(e)
    try:
        entry, wrs = T.TensorIOPreparer.prepare_write("loc", q)
        staged = bytes(E.run(wrs[0].buffer_stager.stage_buffer()))
    except Exception as e:
        ctx.fail("stage-consume-raises", "prepare_write/stage_buffer raised on a quantized tensor", spec, {"err": _errname(e), "msg": str(e)[:160]})
        ctx.case("quant", {k: v for k, v in spec.items() if k != "raw"}, nontrivial=numel(shape) > 0, key=spec)
        return
    obs["entry"] = {"serializer": entry.serializer, "dtype": entry.dtype, "shape": list(entry.shape)}
    if entry.dtype != str(d) or list(entry.shape) != qshape:
        ctx.fail("entry-dtype-shape", "prepare_write recorded a dtype string / shape that is not the tensor's", spec, obs["entry"])
    reps = _drv(ctx, [{"op": "serializer_for", "dtype": name, "shape": qshape},
                      {"op": "as_memoryview", "tensor": {"dtype": name, "shape": qshape, "bytes": list(expected)}}])
    if reps is not None:
        if reps[0].get("entry") != obs["entry"]:
            ctx.disagree("quant.prepare_write", spec, obs["entry"], reps[0])
        if _canon_err(reps[1]) != "raise":
            ctx.disagree("quant.as_memoryview", spec, "raise", reps[1])
    # torch.save / torch.load
    try:
        l = S.torch_load_from_bytes(S.torch_save_as_bytes(q))
        ok = l.dtype == d and list(l.shape) == qshape and E.bits(l) == expected and qparams(l) == qparams(q)
        obs["torch_save"] = {"ok": ok, "qparams": qparams(l)}
        if not ok:
            ctx.fail("torch-save-roundtrip", "torch.save/torch.load changed a quantized tensor", spec, obs["torch_save"])
    except Exception as e:
        obs["torch_save"] = {"err": _errname(e)}
        ctx.fail("torch-save-roundtrip", "torch_save_as_bytes/torch_load_from_bytes raised", spec, obs["torch_save"])
    # end to end, in place into a quantized destination
    for which in ("same", "other"):
        qp = spec["qparams"] if which == "same" else spec["other_qparams"]
        # contiguous, non-view destination of the saved tensor's (logical) shape: quantized copy_ into views /
        # non-contiguous destinations is lossy or unsupported by torch by design and is not part of the claim
        dst = make(torch.zeros(qshape, dtype=ir.dtype), qp)
        try:
            rrs, fut = T.TensorIOPreparer.prepare_read(entry, tensor_out=dst)
            E.run(rrs[0].buffer_consumer.consume_buffer(staged))
            res = fut.obj
            bits_ok = E.bits(res) == expected and res.dtype == d and list(res.shape) == qshape
            qp_ok = qparams(res) == qparams(q)
            obs["consume_" + which] = {"bits_ok": bits_ok, "qparams_ok": qp_ok, "inplace": res is dst,
                                       "qparams": qparams(res), "saved_qparams": qparams(q)}
            if which == "same":
                if not (bits_ok and qp_ok):
                    ctx.fail("stage-consume-roundtrip", "quantized tensor not reproduced by stage_buffer -> consume_buffer", spec, obs["consume_same"])
            else:
                value_ok = torch.equal(res.dequantize(), q.dequantize()) if n_nonzero(qshape) else True
                if bits_ok and not qp_ok and not value_ok:
                    ctx.count("quant.inplace_other_qparams.not_restored")
                    # a listed finding: report a few instances only, so it can never crowd out other failures
                    if ctx.distribution["quant.inplace_other_qparams.not_restored"] <= 3:
                        ctx.fail("quantized-inplace-qparams-not-restored",
                                 "in-place restore into a quantized tensor with different scale/zero_point copies int_repr but keeps the "
                                 "destination's qparams: dequantized values differ from the saved ones", spec, obs["consume_other"])
                elif not (bits_ok or value_ok):
                    ctx.fail("stage-consume-roundtrip", "quantized tensor not reproduced by stage_buffer -> consume_buffer", spec, obs["consume_other"])
        except Exception as e:
            obs["consume_" + which] = {"err": _errname(e), "msg": str(e)[:160]}
            ctx.fail("stage-consume-raises", "in-place restore of a quantized tensor raised", spec, obs["consume_" + which])
    # fresh destination: raises loudly (torch.empty cannot make a usable quantized tensor) — counted only
    try:
        rrs, fut = T.TensorIOPreparer.prepare_read(entry, tensor_out=None)
        E.run(rrs[0].buffer_consumer.consume_buffer(staged))
        res = fut.obj
        ctx.count("quant.fresh_destination.ok")
        if E.bits(res) != expected:
            ctx.fail("stage-consume-roundtrip", "fresh-destination restore of a quantized tensor returned wrong bits silently", spec, None)
    except Exception:
        ctx.count("quant.fresh_destination.raises")
    if verbose:
        print("impl :", obs)
        print("model:", reps)
    ctx.count("quant." + spec["scheme"])
    ctx.case("quant", {k: v for k, v in spec.items() if k != "raw"}, nontrivial=numel(shape) > 0, key=spec)


def n_nonzero(shape):
    return numel(shape) > 0


# --------------------------------------------------------------------------------------
# generators
# --------------------------------------------------------------------------------------

def gen_tensor_spec(ctx: Ctx, dtype=None, maxel=None):
    rng = ctx.rng
    E = env()
    name = dtype or rng.choice(NONQUANT)
    es = E.torch.empty((), dtype=E.dt(name)).element_size()
    if maxel is None:
        maxel = rng.choice([6, 12, 40, 40, 120, 300 if ctx.quick else 2000])
    shape = gen_shape(rng, maxel)
    layout, n_storage, strides, offset = gen_layout(rng, shape)
    raw, pattern = fill_storage(rng, name, es, n_storage)
    return {"kind": "tensor", "dtype": name, "raw": raw, "shape": shape, "strides": strides, "offset": offset,
            "conj": name.startswith("complex") and rng.random() < 0.4,
            "layout": layout, "pattern": pattern, "async": rng.random() < 0.4,
            "dst": rng.choice(["none", "none", "match", "match", "match_nc", "mismatch_dtype", "mismatch_shape"])}


def gen_quant_spec(ctx: Ctx):
    rng = ctx.rng
    E = env()
    name = rng.choice(list(QUANT))
    es = {"qint32": 4, "qint8": 1, "quint8": 1}[name]
    shape = gen_shape(rng, 40)
    scheme = "per_tensor" if (not shape or rng.random() < 0.5) else "per_channel"
    raw = [rng.randrange(256) for _ in range(numel(shape) * es)]

    def tensor_qp():
        return {"scale": float(rng.choice([0.1, 0.25, 1.0, 3.5, 1e-3])).hex(), "zp": rng.randint(0, 100)}

    if scheme == "per_tensor":
        qp, other = tensor_qp(), tensor_qp()
        while other == qp:
            other = tensor_qp()
    else:
        axis = rng.randrange(len(shape))

        def chan_qp():
            return {"scales": [float(rng.choice([0.1, 0.25, 1.0, 2.0])).hex() for _ in range(shape[axis])],
                    "zps": [rng.randint(0, 100) for _ in range(shape[axis])], "axis": axis}
        qp, other = chan_qp(), chan_qp()
        if shape[axis] > 0:
            while other == qp:
                other = chan_qp()
    return {"kind": "quant", "dtype": name, "raw": raw, "shape": shape, "scheme": scheme, "qparams": qp,
            "other_qparams": other, "transpose": rng.random() < 0.3}


def _nontrivial(spec):
    return numel(spec["shape"]) > 0 or (len(spec["shape"]) >= 1)


def _sample(spec):
    return {k: (v if k != "raw" else f"<{len(v)} bytes>") for k, v in spec.items()}


def run(ctx: Ctx):
    E = env()
    # ---- corpus first ----------------------------------------------------------------------
    for spec in CORPUS:
        for dst in ("none", "match"):
            s = {**spec, "dst": dst, "async": dst == "match", "layout": "corpus", "pattern": "corpus"}
            check_tensor(ctx, s, suite="corpus")
            ctx.case("corpus", _sample(s), nontrivial=True, key=s)
    for spec in CORPUS_QUANT:
        check_quant(ctx, spec)
    # ---- tables ----------------------------------------------------------------------------
    check_tables(ctx)
    # ---- bounded-exhaustive small scope: every shape with <=3 dims, sizes 0..k, every dtype --
    k = 2 if ctx.quick else 4
    for name in NONQUANT:
        es = E.torch.empty((), dtype=E.dt(name)).element_size()
        for nd in range(4):
            for shape in itertools.product(range(k + 1), repeat=nd):
                if ctx.time_left() < 20:
                    ctx.notes.append("exhaustive scope stopped early")
                    break
                shape = list(shape)
                raw, _ = fill_storage(ctx.rng, name, es, numel(shape))
                spec = {"kind": "tensor", "dtype": name, "raw": raw, "shape": shape, "strides": rowmajor(shape), "offset": 0,
                        "layout": "contig", "pattern": "exhaustive"}
                check_tensor(ctx, spec, suite="exhaustive", light=True)
                ctx.case("exhaustive", _sample(spec), nontrivial=_nontrivial(spec), key=(name, shape))
                ctx.count("exhaustive.numel0" if numel(shape) == 0 else "exhaustive.numel+")
    # ---- random tensors ----------------------------------------------------------------------
    n_cases = ctx.n(1500, 8000)
    # make sure every (dtype, layout-kind) pair occurs: first a round-robin over dtypes
    for i in range(n_cases):
        if ctx.time_left() < 12:
            ctx.notes.append(f"random tensor stream stopped early at {i}")
            break
        spec = gen_tensor_spec(ctx, dtype=NONQUANT[i % len(NONQUANT)] if i < 20 * len(NONQUANT) else None)
        check_tensor(ctx, spec)
        n = numel(spec["shape"])
        ctx.case("tensor", _sample(spec), nontrivial=_nontrivial(spec),
                 key=(spec["dtype"], spec["shape"], spec["strides"], spec["offset"], spec["raw"]))
        ctx.count("dtype." + spec["dtype"])
        ctx.count("layout." + spec["layout"])
        ctx.count("pattern." + spec["pattern"])
        ctx.count("ndim.%d" % len(spec["shape"]))
        ctx.count("numel." + ("0" if n == 0 else "1" if n == 1 else "odd" if n % 2 else "even"))
    # ---- untyped storage slices (the bfloat16 exporter's arithmetic, every dtype) -------------
    for i in range(ctx.n(120, 1200)):
        if ctx.time_left() < 8:
            break
        name = ctx.rng.choice(NONQUANT)
        es = E.torch.empty((), dtype=E.dt(name)).element_size()
        shape = gen_shape(ctx.rng, 40)
        off = ctx.rng.randint(0, 6)
        raw, _ = fill_storage(ctx.rng, name, es, off + numel(shape) + ctx.rng.randint(0, 4))
        check_untyped_slice(ctx, {"kind": "untyped", "dtype": name, "raw": raw, "shape": shape, "offset": off})
    # ---- quantized ---------------------------------------------------------------------------
    for i in range(ctx.n(60, 600)):
        if ctx.time_left() < 5:
            break
        check_quant(ctx, gen_quant_spec(ctx))


def replay(ctx: Ctx, rec):
    """Re-run a recorded failing input on the implementation and the model."""
    inp = rec["input"]
    kind = inp.get("kind")
    if kind == "tensor":
        check_tensor(ctx, inp, suite="replay", verbose=True)
    elif kind == "tables":
        check_tables(ctx, verbose=True)
    elif kind == "untyped":
        check_untyped_slice(ctx, inp, verbose=True)
    elif kind == "quant":
        check_quant(ctx, inp, verbose=True)
    else:
        print("unknown replay kind", kind)
    for f in ctx.failures:
        print("still fails:", f["sig"], "-", f["what"], "observed:", f["observed"])
