"""flatten._encode of an app key: '%' -> '%25', '/' -> '%2F' (C15's model; compared there)."""


def enc(s: str) -> str:
    return s.replace("%", "%25").replace("/", "%2F")
