#!/venv/bin/python
"""runner.py <Cxx> [quick|thorough] | runner.py <Cxx> --replay <file>"""
from __future__ import annotations

import importlib
import json
import os
import random
import sys
import time
import threading
import traceback

HERE = os.path.dirname(os.path.abspath(__file__))
sys.path.insert(0, HERE)

import common  # noqa: E402
from common import Ctx  # noqa: E402

COMMON_TRUSTED = [
    "Lean 4.33.0 kernel; axioms limited to propext, Classical.choice, Quot.sound (audited with #print axioms on every run)",
    "hand-written Lean model (lean/TsModel) tied to /repo by the correspondence suites of this run",
    "harness/translate_tables.py (AST translator for literal tables/constants) and the Python harness/canonicaliser",
    "Lean compiler/runtime for the tsdriver executable (correspondence only, not proofs)",
]


def main(argv):
    if len(argv) < 2:
        print(__doc__)
        return 2
    prop = argv[1]
    replay = None
    tier = os.environ.get("VERIF_TIER", "quick")
    if len(argv) >= 3:
        if argv[2] == "--replay":
            replay = argv[3]
        else:
            tier = argv[2]
    seed = int(os.environ.get("VERIF_SEED", "0"))
    t0 = time.time()
    try:
        mod = importlib.import_module(f"props.{prop.lower()}")
    except ModuleNotFoundError as e:
        print(f"no such property module: {e}")
        return 2

    budget = float(os.environ.get("VERIF_BUDGET_S", "0")) or (mod.BUDGET_S[0] if tier == "quick" else mod.BUDGET_S[1])
    ctx = Ctx(prop=prop, tier=tier, seed=seed, rng=random.Random(f"{prop}:{seed}"), deadline=t0 + budget)

    # ---- 1. proof obligations: translate, build, audit -------------------------------------
    obligations = list(mod.THEOREMS)
    proof_problems = []
    try:
        ok, log = common.lake_build([mod.LEAN_MODULE, "tsdriver"])
    except Exception as e:
        print(f"harness fault during lake build: {e!r}")
        return 2
    if not ok:
        proof_problems.append({"kind": "build", "log": log[-3000:]})
    audit = {"axioms": {}}
    if ok:
        audit = common.audit_axioms(prop, mod.LEAN_MODULE, obligations)
        for t, ax in audit["axioms"].items():
            if ax is None:
                proof_problems.append({"kind": "missing-theorem", "theorem": t})
            elif not set(ax) <= common.ALLOWED_AXIOMS:
                proof_problems.append({"kind": "axioms", "theorem": t, "axioms": ax})
        hits = common.forbidden_token_scan()
        if hits:
            proof_problems.append({"kind": "forbidden-token", "hits": hits[:20]})
    leanchecker = None
    if ok and tier == "thorough" and not replay:
        # independent re-check of the compiled proof module (and everything it imports) by Lean's leanchecker
        try:
            with common._Lock("lake.lock"):
                rc_lc, out_lc = common.run_cmd(["lake", "env", "leanchecker", mod.LEAN_MODULE], common.LEAN_DIR, timeout=1800)
            leanchecker = "ok" if rc_lc == 0 else "failed"
            if rc_lc != 0:
                proof_problems.append({"kind": "leanchecker", "log": out_lc[-2000:]})
        except Exception as e:  # noqa
            leanchecker = f"not run: {e!r}"
    discharged = sum(1 for t in obligations if audit["axioms"].get(t) is not None and set(audit["axioms"][t]) <= common.ALLOWED_AXIOMS) if ok else 0
    proof_ok = not proof_problems

    # ---- 2. correspondence + oracle on the implementation --------------------------------------
    # the case budget starts now: a cold or slow Lean build must not eat the exploration time
    ctx.deadline = time.time() + budget

    # watchdog: a changed tree may make the implementation hang inside a suite (the unchanged tree never does). A check that
    # cannot finish cannot show that the property holds: after 4x the case budget (at least 15 min) the run is ended as a
    # broken tie, with the stack of every thread in the replay file.
    def _watchdog():
        import faulthandler
        import io as _io
        path = os.path.join(common.REPLAY_DIR, f"{prop}_{tier}_{seed}_tie.json")
        try:
            buf = _io.StringIO()
            for th_id, fr in sys._current_frames().items():
                buf.write(f"thread {th_id}:\n" + "".join(traceback.format_stack(fr)[-12:]) + "\n")
            common.write_json(path, {"property": prop, "seed": seed, "tier": tier, "kind": "broken-tie",
                                     "no_longer_checks": ["correspondence:check-did-not-terminate"],
                                     "note": "the check did not finish within 4x its case budget; stacks of all threads follow",
                                     "stacks": buf.getvalue()[-8000:], "failures_so_far": ctx.failures[:5]})
        finally:
            print(f"VIOLATION property={prop} replay={os.path.relpath(path, common.ROOT)} no-failing-input-found", flush=True)
            print(f"{prop} {tier} seed={seed}: watchdog - the check did not terminate -> exit 1", flush=True)
            os._exit(1)
    if not replay:
        _wd = threading.Timer(float(os.environ.get("VERIF_WATCHDOG_S", "0")) or max(900.0, 4 * budget), _watchdog)
        _wd.daemon = True
        _wd.start()
    harness_fault = None
    if os.path.exists(common.DRIVER_BIN):
        try:
            ctx.driver = common.Driver()
        except Exception as e:
            harness_fault = f"driver: {e!r}"
    elif ok:
        harness_fault = "tsdriver missing after successful build"
    # (if the Lean build is broken the driver may be absent or stale: the property module still
    #  runs its oracle on the implementation; model comparisons are skipped when ctx.driver is None)
    # coroutines abandoned by a deliberately failed restore are finalised by the GC; their "no running event loop"
    # complaints are harness noise, not results
    sys.unraisablehook = lambda *a, **k: None
    try:
        common.import_repo()
        if replay:
            mod.replay(ctx, json.load(open(replay)))
        else:
            mod.run(ctx)
    except Exception:
        # An exception out of the property module while it drives the implementation means the harness could not
        # relate this tree to the model (on the unchanged tree it never happens): the tie is broken, which is
        # reported like any other broken correspondence (VIOLATION ... no-failing-input-found) unless the oracle
        # already found a concrete failing input.  Replays keep the old behaviour (exit 2).
        if replay:
            harness_fault = traceback.format_exc()
        else:
            ctx.disagreements.append({"suite": "harness-exception", "input": None, "impl": traceback.format_exc()[-3000:],
                                      "model": None, "note": "the property module raised while driving the implementation"})
    finally:
        if ctx.driver:
            ctx.driver.close()

    # ---- 3. classify ------------------------------------------------------------------------
    findings, fixed = common.load_known_findings()
    known = {f.sig: f for f in findings if f.prop == prop}
    new_failures = [f for f in ctx.failures if f["sig"] not in known]
    seen_known = {}
    for f in ctx.failures:
        if f["sig"] in known:
            seen_known.setdefault(f["sig"], f)
    corr_ok = not ctx.disagreements
    lines = []
    rc = 0
    stamp = f"{prop}_{tier}_{seed}"
    if new_failures:
        # group by signature; one replay file per signature (max 5)
        by_sig = {}
        for f in new_failures:
            by_sig.setdefault(f["sig"], f)
        for i, (sig, f) in enumerate(list(by_sig.items())[:5]):
            path = os.path.join(common.REPLAY_DIR, f"{stamp}_{i}.json")
            common.write_json(path, {
                "property": prop, "seed": seed, "tier": tier, "kind": "failing-input", "signature": sig,
                "what": f["what"], "input": f["input"], "observed": f["observed"], "suite": f["suite"],
                "proof_problems": proof_problems, "disagreements": ctx.disagreements[:5],
            })
            lines.append(f"VIOLATION property={prop} replay={os.path.relpath(path, common.ROOT)}")
        rc = 1
    elif (not proof_ok or not corr_ok) and harness_fault is None:
        path = os.path.join(common.REPLAY_DIR, f"{stamp}_tie.json")
        common.write_json(path, {
            "property": prop, "seed": seed, "tier": tier, "kind": "broken-tie",
            "no_longer_checks": (
                [p.get("theorem") or p["kind"] for p in proof_problems]
                + sorted({"correspondence:" + d["suite"] for d in ctx.disagreements})
            ),
            "proof_problems": proof_problems,
            "disagreements": ctx.disagreements[:10],
            "note": "model/theorem no longer tied to the code; failing-input search on the implementation found nothing",
        })
        lines.append(f"VIOLATION property={prop} replay={os.path.relpath(path, common.ROOT)} no-failing-input-found")
        rc = 1
    for sig, f in seen_known.items():
        lines.append(f"KNOWN-FINDING: property={prop} {known[sig].text} [sig={sig}]")

    # ---- 4. evidence -----------------------------------------------------------------------------
    wall = time.time() - t0
    evidence = {
        "property_id": prop,
        "tier": tier,
        "seed": seed,
        "level": "proof",
        "coverage": {
            "obligations": len(obligations),
            "discharged": discharged,
            "checker_cmd": f"cd lean && lake build {mod.LEAN_MODULE} && lake env lean ../out/audit_{prop}.lean  # #print axioms per theorem",
            "trusted_base": COMMON_TRUSTED + list(getattr(mod, "TRUSTED", [])),
            "theorems": {t: audit["axioms"].get(t) for t in obligations},
            "leanchecker": leanchecker,
            "evaluations": ctx.evaluations,
            "distinct_nontrivial": len(ctx.nontrivial),
            "rule": getattr(mod, "RULE", ""),
            "samples": ctx.samples[:12] or [{"note": "no correspondence cases ran"}],
            "traces_validated_against_impl": ctx.evaluations,
            "suites": ctx.suites,
            "distribution": ctx.distribution,
            "model_calls": ctx.driver.calls if ctx.driver else 0,
            "correspondence_disagreements": len(ctx.disagreements),
            "oracle_failures": len(ctx.failures),
            "known_findings_reproduced": sorted(seen_known),
            "proof_problems": proof_problems,
            "notes": ctx.notes,
            "exhaustive": False,
        },
        "assumptions": list(getattr(mod, "ASSUMPTIONS", [])),
        "wall_s": round(wall, 2),
        "violations": len({f["sig"] for f in new_failures}) if new_failures else (1 if rc == 1 else 0),
    }
    if not replay:
        # evidence/ holds runs against /repo itself only; a run against another tree (VERIF_REPO: seeded changes, scratch
        # worktrees) leaves its evidence under out/
        ev_dir = common.EVIDENCE_DIR if os.path.realpath(common.REPO) == "/repo" else os.path.join(common.OUT_DIR, "evidence_other_tree")
        os.makedirs(ev_dir, exist_ok=True)
        common.write_json(os.path.join(ev_dir, f"{prop}.json"), evidence)

    for l in lines:
        print(l)
    if harness_fault is not None and rc == 0:
        print(f"HARNESS-FAULT property={prop}\n{harness_fault}")
        return 2
    print(f"{prop} {tier} seed={seed}: obligations {discharged}/{len(obligations)} proved; "
          f"{ctx.evaluations} cases ({len(ctx.nontrivial)} distinct non-trivial); "
          f"{len(ctx.disagreements)} disagreements; {len(ctx.failures)} oracle failures "
          f"({len(new_failures)} unlisted); {wall:.1f}s -> exit {rc}")
    return rc


if __name__ == "__main__":
    sys.exit(main(sys.argv))
