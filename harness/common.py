"""Shared machinery of the torchsnapshot verification checks.

One check = one run of `runner.py <Cxx> <quick|thorough>`:
  1. translate tables from /repo -> lean/TsGen/Tables.lean ; `lake build` ; audit axioms
  2. run the property module: correspondence (real code vs Lean driver) + oracle on the real code
  3. classify, print VIOLATION / KNOWN-FINDING lines, write evidence/<id>.json
Exit codes: 0 = held, 1 = violation, 2 = harness fault / timeout (never a violation).
"""
from __future__ import annotations

import fcntl
import hashlib
import json
import os
import random
import re
import subprocess
import sys
import time
import traceback
from dataclasses import dataclass, field
from typing import Any, Callable, Dict, List, Optional, Tuple

ROOT = os.path.dirname(os.path.dirname(os.path.abspath(__file__)))
REPO = os.environ.get("VERIF_REPO", "/repo")
LEAN_DIR = os.path.join(ROOT, "lean")
OUT_DIR = os.path.join(ROOT, "out")
EVIDENCE_DIR = os.path.join(ROOT, "evidence")
REPLAY_DIR = os.path.join(ROOT, "replays")
CORPUS_DIR = os.path.join(ROOT, "corpus")
KNOWN_FINDINGS = os.path.join(ROOT, "KNOWN_FINDINGS.txt")
DRIVER_BIN = os.path.join(LEAN_DIR, ".lake", "build", "bin", "tsdriver")

ALLOWED_AXIOMS = {"propext", "Classical.choice", "Quot.sound"}
FORBIDDEN_TOKENS = re.compile(
    r"\b(sorry|admit|native_decide|bv_decide|implemented_by)\b|^\s*axiom\s|\bunsafe\s|maxHeartbeats\s+0\b"
)

for d in (OUT_DIR, EVIDENCE_DIR, REPLAY_DIR):
    os.makedirs(d, exist_ok=True)


# --------------------------------------------------------------------------------------
# Lean build + audit
# --------------------------------------------------------------------------------------

class _Lock:
    def __init__(self, name: str):
        self.path = os.path.join(OUT_DIR, name)

    def __enter__(self):
        self.f = open(self.path, "w")
        fcntl.flock(self.f, fcntl.LOCK_EX)
        return self

    def __exit__(self, *a):
        fcntl.flock(self.f, fcntl.LOCK_UN)
        self.f.close()


def run_cmd(cmd: List[str], cwd: str, timeout: int = 3600) -> Tuple[int, str]:
    p = subprocess.run(cmd, cwd=cwd, stdout=subprocess.PIPE, stderr=subprocess.STDOUT, timeout=timeout)
    return p.returncode, p.stdout.decode("utf-8", "replace")


def translate_tables() -> Tuple[bool, str]:
    """Regenerate lean/TsGen/Tables.lean from /repo's current sources (AST only)."""
    from translate_tables import generate

    try:
        text = generate(REPO)
    except Exception as e:  # a construct the translator cannot read = broken tie
        return False, f"translator failed: {e!r}"
    path = os.path.join(LEAN_DIR, "TsGen", "Tables.lean")
    old = open(path).read() if os.path.exists(path) else None
    if old != text:
        with open(path, "w") as f:
            f.write(text)
    return True, "ok"


def lake_build(targets: List[str]) -> Tuple[bool, str]:
    with _Lock("lake.lock"):
        ok_t, msg = translate_tables()
        rc, out = run_cmd(["lake", "build"] + targets, LEAN_DIR)
        if not ok_t:
            return False, msg + "\n" + out
        return rc == 0, out


def strip_lean_comments(src: str) -> str:
    # remove nested block comments and line comments (good enough: no strings contain "--" in proofs)
    out = []
    i, depth = 0, 0
    n = len(src)
    while i < n:
        if src.startswith("/-", i):
            depth += 1
            i += 2
        elif depth and src.startswith("-/", i):
            depth -= 1
            i += 2
        elif depth:
            i += 1
        elif src.startswith("--", i):
            j = src.find("\n", i)
            i = n if j < 0 else j
        else:
            out.append(src[i])
            i += 1
    return "".join(out)


def lean_sources() -> List[str]:
    res = []
    for base in ("TsModel", "TsProofs", "TsGen", "Driver"):
        for dp, _, fns in os.walk(os.path.join(LEAN_DIR, base)):
            for fn in fns:
                if fn.endswith(".lean"):
                    res.append(os.path.join(dp, fn))
    for fn in os.listdir(LEAN_DIR):
        if fn.endswith(".lean"):
            res.append(os.path.join(LEAN_DIR, fn))
    return sorted(res)


def forbidden_token_scan() -> List[str]:
    hits = []
    for p in lean_sources():
        code = strip_lean_comments(open(p).read())
        for ln, line in enumerate(code.split("\n"), 1):
            if FORBIDDEN_TOKENS.search(line):
                hits.append(f"{os.path.relpath(p, LEAN_DIR)}:{ln}: {line.strip()[:100]}")
    return hits


def audit_axioms(prop: str, module: str, theorems: List[str]) -> Dict[str, Any]:
    """`#print axioms` for every property theorem; returns per-theorem axiom lists."""
    path = os.path.join(OUT_DIR, f"audit_{prop}.lean")
    with open(path, "w") as f:
        f.write(f"import {module}\n")
        for t in theorems:
            f.write(f"#print axioms {t}\n")
    with _Lock("lake.lock"):
        rc, out = run_cmd(["lake", "env", "lean", path], LEAN_DIR)
    res: Dict[str, Any] = {}
    flat = out.replace("\n", " ")
    for t in theorems:
        m = re.search(r"'" + re.escape(t) + r"' depends on axioms: \[([^\]]*)\]", flat)
        if m:
            res[t] = sorted(a.strip() for a in m.group(1).split(",") if a.strip())
        elif re.search(r"'" + re.escape(t) + r"' does not depend on any axioms", flat):
            res[t] = []
        else:
            res[t] = None  # unknown theorem / elaboration error
    return {"rc": rc, "axioms": res, "raw": out[-4000:]}


# --------------------------------------------------------------------------------------
# Driver client (JSON lines)
# --------------------------------------------------------------------------------------

class Driver:
    def __init__(self):
        if not os.path.exists(DRIVER_BIN):
            raise RuntimeError("tsdriver not built")
        self.p = subprocess.Popen([DRIVER_BIN], stdin=subprocess.PIPE, stdout=subprocess.PIPE, bufsize=0)
        self.calls = 0

    def call(self, obj: Dict[str, Any]) -> Dict[str, Any]:
        return self.call_many([obj])[0]

    def call_many(self, objs: List[Dict[str, Any]]) -> List[Dict[str, Any]]:
        if not objs:
            return []
        res: List[Dict[str, Any]] = []
        # chunk to stay well under pipe-buffer deadlocks
        CH = 64
        for i in range(0, len(objs), CH):
            chunk = objs[i:i + CH]
            data = "".join(json.dumps(o, separators=(",", ":")) + "\n" for o in chunk).encode()
            # writer thread not needed: replies are consumed per chunk, chunks are small
            import threading
            t = threading.Thread(target=self._write, args=(data,))
            t.start()
            for _ in chunk:
                line = self.p.stdout.readline()
                if not line:
                    raise RuntimeError("tsdriver died")
                res.append(json.loads(line))
            t.join()
        self.calls += len(objs)
        return res

    def _write(self, data: bytes):
        self.p.stdin.write(data)
        self.p.stdin.flush()

    def close(self):
        try:
            self.p.stdin.close()
            self.p.wait(timeout=5)
        except Exception:
            self.p.kill()


# --------------------------------------------------------------------------------------
# Known findings
# --------------------------------------------------------------------------------------

@dataclass
class Finding:
    prop: str
    sig: str
    text: str


def load_known_findings() -> Tuple[List[Finding], List[str]]:
    findings, fixed = [], []
    if os.path.exists(KNOWN_FINDINGS):
        for line in open(KNOWN_FINDINGS):
            line = line.strip()
            if not line or line.startswith("#"):
                continue
            if line.startswith("fixed:"):
                fixed.append(line)
                continue
            m = re.match(r"finding:\s+property=(C\d+)\s+sig=(\S+)\s+(.*)", line)
            if m:
                findings.append(Finding(m.group(1), m.group(2), m.group(3)))
    return findings, fixed


# --------------------------------------------------------------------------------------
# Check context
# --------------------------------------------------------------------------------------

def canon(o: Any) -> str:
    return json.dumps(o, sort_keys=True, separators=(",", ":"), default=repr)


@dataclass
class Ctx:
    prop: str
    tier: str
    seed: int
    rng: random.Random
    driver: Optional[Driver] = None
    evaluations: int = 0
    nontrivial: set = field(default_factory=set)
    samples: List[Any] = field(default_factory=list)
    distribution: Dict[str, int] = field(default_factory=dict)
    disagreements: List[Dict[str, Any]] = field(default_factory=list)
    failures: List[Dict[str, Any]] = field(default_factory=list)
    suites: Dict[str, Dict[str, int]] = field(default_factory=dict)
    notes: List[str] = field(default_factory=list)
    deadline: float = 0.0

    @property
    def quick(self) -> bool:
        return self.tier == "quick"

    def n(self, quick: int, thorough: int) -> int:
        return quick if self.quick else thorough

    def time_left(self) -> float:
        return self.deadline - time.time()

    def count(self, key: str, k: int = 1):
        self.distribution[key] = self.distribution.get(key, 0) + k

    def case(self, suite: str, sample: Any, nontrivial: bool = True, key: Any = None):
        """Record one evaluated case."""
        self.evaluations += 1
        s = self.suites.setdefault(suite, {"cases": 0, "disagreements": 0, "failures": 0})
        s["cases"] += 1
        if nontrivial:
            h = hashlib.sha1(canon(key if key is not None else sample).encode()).hexdigest()[:16]
            self.nontrivial.add((suite, h))
        if len([x for x in self.samples if x.get("suite") == suite]) < 2:
            self.samples.append({"suite": suite, "case": _truncate(sample)})

    def disagree(self, suite: str, inp: Any, impl: Any, model: Any, note: str = ""):
        """Correspondence disagreement: model and implementation differ on `inp`."""
        self.suites.setdefault(suite, {"cases": 0, "disagreements": 0, "failures": 0})["disagreements"] += 1
        if len(self.disagreements) < 50:
            self.disagreements.append({"suite": suite, "input": inp, "impl": _truncate(impl), "model": _truncate(model), "note": note})

    def fail(self, sig: str, what: str, inp: Any, observed: Any = None, suite: str = "oracle"):
        """Oracle failure on the real implementation: a concrete failing input."""
        self.suites.setdefault(suite, {"cases": 0, "disagreements": 0, "failures": 0})["failures"] += 1
        if len(self.failures) < 200:
            self.failures.append({"sig": sig, "what": what, "input": inp, "observed": _truncate(observed), "suite": suite})


def _truncate(o: Any, limit: int = 4000) -> Any:
    try:
        s = canon(o)
    except Exception:
        s = repr(o)
    if len(s) <= limit:
        try:
            return json.loads(s)
        except Exception:
            return s
    return s[:limit] + "...<truncated>"


def write_json(path: str, obj: Any):
    tmp = path + ".tmp"
    with open(tmp, "w") as f:
        json.dump(obj, f, indent=1, sort_keys=True, default=repr)
    os.replace(tmp, path)


def import_repo():
    """Make `import torchsnapshot` resolve to /repo's working tree."""
    if REPO not in sys.path:
        sys.path.insert(0, REPO)
    import warnings
    warnings.filterwarnings("ignore")
    import logging
    logging.disable(logging.CRITICAL)
