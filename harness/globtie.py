"""Tie of the fnmatch model (TsModel/Glob.lean): Python's fnmatch.fnmatch vs the driver on generated (name, pattern)
pairs, inside the modelled fragment and around its edges."""
from __future__ import annotations

import fnmatch

from common import Ctx

ALPHA = ["s", "r", "m", "_", "e", "/", "/", "*", "*", "?", "[", "]", "!", "-", "0", "%", "x", " ", "é"]
NAMES = ["s", "r", "m", "_", "e", "/", "/", "0", "%", "x", "[", "]", "*", " ", "é", "!"]


def fnmatch_suite(ctx: Ctx, n: int, suite: str = "fnmatch"):
    if not ctx.driver:
        return
    rng = ctx.rng
    cases = []
    fixed = [("model/w", "model/**"), ("model_ema/w", "model/**"), ("model", "model/**"), ("a/b", "*/b"), ("a/b", "a/?"), ("ab", "[a]?"),
             ("a", "[!a]"), ("[a", "[a"), ("a]", "a]"), ("x", "[]"), ("x", "[!]"), ("-", "[a-]"), ("b", "[a-c]"), ("", ""), ("", "*"), ("a", ""),
             ("s/r0", "s/r*"), ("s_ema/r0", "s/r*"), ("ss/w", "s/**"), ("s%2Fx/w", "s/**"), ("a/bias", "*/bias"), ("a/bias2", "*/bias"), ("bias", "*bias"), ("x/y/w", "**/w"), ("x/y/w", "*.w"), ("a*b", "a[*]b"), ("a?b", "a[?]b"), ("a[b", "a[[]b")]
    for name, pat in fixed:
        cases.append((name, pat))
    for _ in range(n):
        pat = "".join(rng.choice(ALPHA) for _ in range(rng.randint(0, 7)))
        if rng.random() < 0.5:
            # a name derived from the pattern: replace metacharacters by plausible text so that matches are frequent
            name = ""
            for c in pat:
                if c == "*":
                    name += "".join(rng.choice(NAMES) for _ in range(rng.randint(0, 3)))
                elif c in "?[]!-":
                    name += rng.choice(NAMES) if rng.random() < 0.8 else ""
                else:
                    name += c if rng.random() < 0.9 else rng.choice(NAMES)
        else:
            name = "".join(rng.choice(NAMES) for _ in range(rng.randint(0, 6)))
        cases.append((name, pat))
    rep = ctx.driver.call({"op": "fnmatch", "cases": [{"name": [ord(c) for c in a], "pat": [ord(c) for c in b]} for a, b in cases]})
    outs = rep.get("outs", [])
    for (name, pat), m in zip(cases, outs):
        real = fnmatch.fnmatch(name, pat)
        if m == "unsupported":
            ctx.count("fnmatch.outside_model")
        else:
            ctx.count("fnmatch.match" if real else "fnmatch.nomatch")
            if m != real:
                ctx.disagree(suite, {"name": name, "pattern": pat}, real, m, "fnmatch.fnmatch differs from the glob model")
        ctx.case(suite, {"name": name, "pattern": pat, "match": real, "model": m}, nontrivial=m != "unsupported", key=[name, pat])
