"""End-to-end take/restore driver on the simulator, shared by C01 / C18 (and usable by others).

A *case* is JSON-able:
  {"world": W, "states": [ [[app_key_desc, tree_desc], ...] per rank ], "replicated": [...globs],
   "take_knobs": {...}, "restore_knobs": {...}, "mode": "fresh" | "inplace" | "wrong", "subset": [app key indices] | None,
   "async": bool}
"""
from __future__ import annotations

import os
from collections import OrderedDict
from typing import Any, Dict, List, Optional, Tuple


def target_like(x, mode: str, rng=None):
    """Restore target for a saved value: None (allocate), zeros of the same dtype/shape (in place), or a
    tensor of another shape/dtype (cannot be loaded in place)."""
    import torch
    if isinstance(x, torch.Tensor):
        if mode == "fresh":
            return None
        if mode == "inplace":
            t = torch.empty(x.shape, dtype=x.dtype)
            if t.numel():
                t.view(-1)[:] = 1 if x.dtype == torch.bool else 3
            return t
        # wrong: different shape or dtype
        if rng is not None and rng.random() < 0.5:
            return torch.zeros(list(x.shape) + [2], dtype=x.dtype)
        return torch.zeros(x.shape, dtype=torch.int8 if x.dtype != torch.int8 else torch.int16)
    if type(x) is OrderedDict:
        return OrderedDict((k, target_like(v, mode, rng)) for k, v in x.items())
    if type(x) is dict:
        if not all(isinstance(k, (str, int)) for k in x) or len({str(k) for k in x}) < len(x):
            return None         # opaque object
        return {k: target_like(v, mode, rng) for k, v in x.items()}
    if type(x) is list:
        return [target_like(v, mode, rng) for v in x]
    return None


def run_take_restore(case: Dict[str, Any], root: str, rng=None):
    """Returns (results per rank, world, saved states). results[r] = ("ok", {app_key: diff-or-None}) | ("exc", e)."""
    import gen
    import sim
    from torchsnapshot import Snapshot

    W = case["world"]
    world = sim.World(W)
    saved: List[Dict[Any, Any]] = [None] * W   # type: ignore

    def body(r, pg):
        app = OrderedDict()
        for (kd, d) in case["states"][r]:
            tree = gen.build_tree(d)
            if not isinstance(tree, dict):
                tree = {"v": tree}
            app[gen.build_key(kd)] = gen.RecStateful(tree)
        saved[r] = {k: gen.deep_clone(v.sd) for k, v in app.items()}
        with_knobs = case["take_knobs"]
        if case.get("async"):
            pending = Snapshot.async_take(root, app, pg=pg, replicated=case.get("replicated") or None)
            pending.wait()
        else:
            Snapshot.take(root, app, pg=pg, replicated=case.get("replicated") or None)
        return True

    with sim.knobs(**case["take_knobs"]):
        if W == 1:
            try:
                res = [("ok", world.run1(lambda: body(0, None)))]
            except Exception as e:  # noqa
                res = [("exc", e)]
        else:
            res = world.run(body)
    if any(r[0] != "ok" for r in res):
        return ("take-raised", res), world, saved

    mode = case.get("mode", "fresh")

    def rbody(r, pg):
        keys = list(saved[r].keys())
        subset = case.get("subset")
        if subset:
            sel = [keys[i % len(keys)] for i in subset]
            keys = [k for k in keys if k in sel]
        app = OrderedDict()
        for k in keys:
            app[k] = gen.RecStateful(target_like(saved[r][k], mode, rng))
        Snapshot(root, pg=pg).restore(app)
        out = {}
        for k in keys:
            out[k] = gen.deep_eq(saved[r][k], app[k].loaded)
        return out

    with sim.knobs(**case["restore_knobs"]):
        if W == 1:
            try:
                res2 = [("ok", world.run1(lambda: rbody(0, None)))]
            except Exception as e:  # noqa
                res2 = [("exc", e)]
        else:
            res2 = world.run(rbody)
    return ("done", res2), world, saved


def gen_case(rng, keys=None, max_world: int = 3, adversarial_leaf: bool = True) -> Dict[str, Any]:
    import gen
    import sim
    W = rng.choice([1, 1, 2, 3][: max_world + 1])
    replicated = rng.choice([[], [], ["**"], ["s/**"], ["*/a", "s/b*"]]) if W > 1 else rng.choice([[], ["**"]])
    # A path matched by a replication glob on every rank must hold the same value on every rank (that is what
    # "replicated" means; different values - or a tensor on one rank and a primitive on another - are a caller error,
    # not a legal state).  So: no glob -> independent states; "s/**" -> the app key "s" is shared and the other app keys
    # are per rank; globs that can match anywhere ("**", "*/a") -> every rank holds the same state.
    def one_tree():
        tree = gen.rand_tree_desc(rng, 3, keys=keys, tensors=0.7, max_elems=20)
        if tree["t"] not in ("dict", "odict"):
            tree = {"t": rng.choice(["dict", "odict"]), "items": [[gen.key_desc(rng.choice(keys or gen.SAFE_KEYS)), tree]]}
        return tree
    states = []
    if not replicated:
        for r in range(W):
            states.append([[gen.key_desc(ak), one_tree()] for ak in rng.sample(["s", "t", "u/v", "%x"], rng.randint(1, 2))])
    elif replicated == ["s/**"]:
        s_tree = one_tree()
        for r in range(W):
            st = [[gen.key_desc("s"), s_tree]]
            for ak in rng.sample(["t", "u/v", "%x"], rng.randint(0, 1)):
                st.append([gen.key_desc(ak), one_tree()])
            rng.shuffle(st)
            states.append(st)
    else:
        st = [[gen.key_desc(ak), one_tree()] for ak in rng.sample(["s", "t", "u/v", "%x"], rng.randint(1, 2))]
        states = [st for _ in range(W)]
    return {"world": W, "states": states, "replicated": replicated,
            "take_knobs": sim.rand_knobs(rng), "restore_knobs": sim.rand_knobs(rng),
            "mode": rng.choice(["fresh", "inplace", "inplace", "wrong"]),
            "subset": rng.choice([None, None, [0], [1]]), "async": rng.random() < 0.2}
