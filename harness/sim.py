"""In-process multi-rank simulation of torchsnapshot's environment.

The *real* Snapshot.take / async_take / restore / read_object code runs unmodified; only the
environment is replaced (no source hooks):

  * MemStore / MemPlugin   in-memory StoragePlugin with FS-plugin semantics (join + normpath, short
                           ranged reads, FileNotFoundError), an operation log, fault injection and
                           damage; installed by patching `torchsnapshot.storage_plugin.url_to_storage_plugin`
  * FakePG + patched PGWrapper methods: collectives rendezvous through an in-process hub, which logs the
                           per-rank collective sequence and turns a mismatch / missing participant into an
                           exception instead of a hang
  * FakeStore              in-memory dist.Store (set/get/wait) shared by all rank threads, persistent for
                           the lifetime of a World (that persistence matters for C13 histories)

Every rank runs in its own thread. Adversarial keys never reach a real filesystem.
"""
from __future__ import annotations

import asyncio
import io
import os
import pickle
import threading
import time
from contextlib import contextmanager
from typing import Any, Callable, Dict, List, Optional, Tuple

_tls = threading.local()
_CURRENT: Dict[str, Any] = {"world": None}
_INSTALLED = {"done": False}
MemPlugin = None
FsProxy = None

COLLECTIVE_TIMEOUT_S = float(os.environ.get("VERIF_COLLECTIVE_TIMEOUT_S", "20"))


def wait_limit() -> float:
    """Bounded wait used only to turn a genuine deadlock into an exception. It scales with machine load
    (1-minute load average per core), so an oversubscribed machine does not turn slowness into a 'hang'."""
    try:
        factor = max(1.0, os.getloadavg()[0] / max(os.cpu_count() or 1, 1))
    except OSError:
        factor = 1.0
    return COLLECTIVE_TIMEOUT_S * min(factor, 60.0)


class Mismatch(Exception):
    """Collective mismatch or missing participant (would be a hang / crash on a real process group)."""


class InjectedFault(OSError):
    pass


def current_rank() -> int:
    return getattr(_tls, "rank", 0)


def current_world() -> "World":
    w = getattr(_tls, "world", None) or _CURRENT["world"]
    if w is None:
        raise RuntimeError("no simulated world active")
    return w


# ----------------------------------------------------------------------------------------------
# storage
# ----------------------------------------------------------------------------------------------

class MemStore:
    def __init__(self):
        self.files: Dict[str, bytes] = {}
        self.log: List[Dict[str, Any]] = []          # completed operations, in completion order
        self.lock = threading.Lock()
        self.write_faults: Dict[Tuple[int, int], str] = {}   # (rank, n-th write issued by rank) -> message
        self.write_count: Dict[int, int] = {}
        self.read_faults: Dict[Tuple[int, int], str] = {}
        self.read_count: Dict[int, int] = {}
        self.yield_rng = None                          # random.Random -> random number of loop yields per op
        self.inflight_read_bytes: Dict[int, int] = {}  # rank -> bytes of buffers handed out and not yet released
        self.on_event: Optional[Callable[[Dict[str, Any]], None]] = None
        # background-write gate (C09): writes executing on a thread that is not in gate["callers"] wait until
        # gate["passed"] < gate["allowed"]; lets a harness stop async_take's background I/O at a chosen point
        self.gate: Optional[Dict[str, Any]] = None

    def snapshot_files(self) -> Dict[str, bytes]:
        with self.lock:
            return dict(self.files)

    def _ev(self, **kw):
        with self.lock:
            kw["i"] = len(self.log)
            self.log.append(kw)
        if self.on_event:
            self.on_event(kw)

    def writes(self) -> List[Dict[str, Any]]:
        return [e for e in self.log if e["op"] == "write"]

    def reads(self) -> List[Dict[str, Any]]:
        return [e for e in self.log if e["op"] == "read"]


class _DirFiles:
    """dict-like view of a directory tree: key "/snap/x/0/a" <-> file <base>/snap/x/0/a"""

    def __init__(self, base: str):
        self.base = base

    def _p(self, k: str) -> str:
        return os.path.join(self.base, k.lstrip("/"))

    def __contains__(self, k):
        return os.path.isfile(self._p(k))

    def __getitem__(self, k):
        try:
            with open(self._p(k), "rb") as f:
                return f.read()
        except FileNotFoundError:
            raise KeyError(k)

    def get(self, k, default=None):
        return self[k] if k in self else default

    def __setitem__(self, k, v):
        os.makedirs(os.path.dirname(self._p(k)), exist_ok=True)
        with open(self._p(k), "wb") as f:
            f.write(v)

    def __delitem__(self, k):
        os.remove(self._p(k))

    def keys(self):
        out = []
        for dp, _, fns in os.walk(self.base):
            for fn in fns:
                out.append("/" + os.path.relpath(os.path.join(dp, fn), self.base))
        return sorted(out)

    def __iter__(self):
        return iter(self.keys())

    def items(self):
        return [(k, self[k]) for k in self.keys()]


class FsStore(MemStore):
    """MemStore interface over the REAL FSStoragePlugin rooted in a private directory (plain keys only!)."""

    def __init__(self, base: str):
        super().__init__()
        self.base = base
        os.makedirs(base, exist_ok=True)
        self.files = _DirFiles(base)        # type: ignore

    def snapshot_files(self) -> Dict[str, bytes]:
        return dict(self.files.items())


class _FsProxy:
    """the real FSStoragePlugin + the MemPlugin's operation log"""

    def __init__(self, real, url_root: str, store: "FsStore", rank: int):
        self.real, self.url_root, self.store, self.rank = real, url_root, store, rank

    def _abs(self, p):
        return os.path.normpath(os.path.join(self.url_root, p))

    async def write(self, write_io) -> None:
        st = self.store
        with st.lock:
            n = st.write_count.get(self.rank, 0)
            st.write_count[self.rank] = n + 1
        st._ev(op="write_begin", rank=self.rank, raw=write_io.path, path=self._abs(write_io.path), n=n)
        await self.real.write(write_io)
        st._ev(op="write", rank=self.rank, raw=write_io.path, path=self._abs(write_io.path), len=len(write_io.buf), n=n,
               buftype=type(write_io.buf).__name__)

    async def read(self, read_io) -> None:
        await self.real.read(read_io)
        self.store._ev(op="read", rank=self.rank, raw=read_io.path, path=self._abs(read_io.path),
                       range=list(read_io.byte_range) if read_io.byte_range else None, len=len(read_io.buf.getvalue()))

    async def delete(self, path):
        await self.real.delete(path)

    async def delete_dir(self, path):
        await self.real.delete_dir(path)

    async def close(self):
        await self.real.close()

    def sync_write(self, write_io, event_loop=None):
        event_loop.run_until_complete(self.write(write_io=write_io))

    def sync_read(self, read_io, event_loop=None):
        event_loop.run_until_complete(self.read(read_io=read_io))

    def sync_close(self, event_loop=None):
        event_loop.run_until_complete(self.close())


class _MemPluginBase:
    """StoragePlugin over a MemStore with the FS plugin's path and read semantics."""

    def __init__(self, root: str, store: MemStore, rank: int):
        self.root, self.store, self.rank = root, store, rank

    def _abs(self, p: str) -> str:
        return os.path.normpath(os.path.join(self.root, p))

    async def _yields(self):
        r = self.store.yield_rng
        if r is not None:
            for _ in range(r.randrange(0, 4)):
                await asyncio.sleep(0)

    async def write(self, write_io) -> None:
        st = self.store
        with st.lock:
            n = st.write_count.get(self.rank, 0)
            st.write_count[self.rank] = n + 1
            fault = st.write_faults.get((self.rank, n))
        p = self._abs(write_io.path)
        st._ev(op="write_begin", rank=self.rank, raw=write_io.path, path=p, n=n)
        await self._yields()
        if fault is not None:
            st._ev(op="write_fail", rank=self.rank, raw=write_io.path, path=p, n=n)
            raise InjectedFault(fault)
        g = st.gate
        if g is not None and threading.current_thread() not in g["callers"]:
            while g["passed"] >= g["allowed"]:
                await asyncio.sleep(0.0005)
            g["passed"] += 1
        data = bytes(write_io.buf)
        with st.lock:
            st.files[p] = data
        st._ev(op="write", rank=self.rank, raw=write_io.path, path=p, len=len(data), n=n,
               buftype=type(write_io.buf).__name__)

    async def read(self, read_io) -> None:
        st = self.store
        with st.lock:
            n = st.read_count.get(self.rank, 0)
            st.read_count[self.rank] = n + 1
            fault = st.read_faults.get((self.rank, n))
        p = self._abs(read_io.path)
        await self._yields()
        if fault is not None:
            raise InjectedFault(fault)
        with st.lock:
            data = st.files.get(p)
        if data is None:
            st._ev(op="read_missing", rank=self.rank, raw=read_io.path, path=p)
            raise FileNotFoundError(p)
        if read_io.byte_range is None:
            out = data
        else:
            a, b = read_io.byte_range
            out = data[a:a + (b - a)] if b - a >= 0 else data[a:]   # f.seek(a); f.read(b - a)
        read_io.buf = io.BytesIO(out)
        st._ev(op="read", rank=self.rank, raw=read_io.path, path=p, range=list(read_io.byte_range) if read_io.byte_range else None,
               len=len(out))

    async def delete(self, path: str) -> None:
        with self.store.lock:
            del self.store.files[self._abs(path)]

    async def delete_dir(self, path: str) -> None:
        pre = self._abs(path).rstrip("/") + "/"
        with self.store.lock:
            for k in [k for k in self.store.files if k.startswith(pre)]:
                del self.store.files[k]

    async def close(self) -> None:
        pass

    # the three sync helpers of the real base class
    def sync_write(self, write_io, event_loop=None):
        event_loop.run_until_complete(self.write(write_io=write_io))

    def sync_read(self, read_io, event_loop=None):
        event_loop.run_until_complete(self.read(read_io=read_io))

    def sync_close(self, event_loop=None):
        event_loop.run_until_complete(self.close())


# ----------------------------------------------------------------------------------------------
# process group
# ----------------------------------------------------------------------------------------------

class Hub:
    def __init__(self, world: int):
        self.world = world
        self.cv = threading.Condition()
        self.round: Dict[int, Dict[int, Tuple[str, bytes]]] = {}
        self.seq = [0] * world
        self.log: List[List[str]] = [[] for _ in range(world)]
        self.failed: Optional[str] = None
        self.finished = [False] * world      # rank thread ended (ok or exception)

    def collective(self, rank: int, op: str, payload: Any) -> Dict[int, Any]:
        with self.cv:
            seq = self.seq[rank]
            self.seq[rank] += 1
            self.log[rank].append(op)
            slot = self.round.setdefault(seq, {})
            slot[rank] = (op, pickle.dumps(payload))
            self.cv.notify_all()
            t0 = time.time()
            while len(slot) < self.world and self.failed is None:
                missing = [r for r in range(self.world) if r not in slot]
                if any(self.finished[r] for r in missing):
                    self.failed = (f"collective {op}#{seq}: rank(s) {[r for r in missing if self.finished[r]]} "
                                   f"ended without joining; arrived {sorted((r, o) for r, (o, _) in slot.items())}")
                    self.cv.notify_all()
                    break
                self.cv.wait(timeout=0.05)
                if time.time() - t0 > wait_limit():
                    self.failed = f"timeout at collective #{seq}: arrived {sorted((r, o) for r, (o, _) in slot.items())}"
                    self.cv.notify_all()
            if self.failed:
                raise Mismatch(self.failed)
            ops = {o for (o, _) in slot.values()}
            if len(ops) != 1:
                self.failed = f"collective mismatch at #{seq}: {sorted((r, o) for r, (o, _) in slot.items())}"
                self.cv.notify_all()
                raise Mismatch(self.failed)
            return {r: pickle.loads(p) for r, (o, p) in slot.items()}

    def rank_finished(self, rank: int):
        with self.cv:
            self.finished[rank] = True
            self.cv.notify_all()


class FakePG:
    """Stands for a dist.ProcessGroup handle; carries the rank it belongs to."""

    def __init__(self, world: "World", rank: int):
        self.world, self.rank = world, rank

    def __reduce__(self):  # never pickled into payloads
        raise TypeError("FakePG is not picklable")


class FakeStore:
    def __init__(self):
        self.d: Dict[str, bytes] = {}
        self.cv = threading.Condition()
        self.log: List[Tuple] = []
        self.timeout_s = None

    def set(self, k, v):
        with self.cv:
            self.d[k] = v.encode() if isinstance(v, str) else bytes(v)
            self.log.append(("set", current_rank(), k, len(self.d[k])))
            self.cv.notify_all()

    def get(self, k):
        with self.cv:
            t0 = time.time()
            while k not in self.d:
                self.cv.wait(0.05)
                if time.time() - t0 > (self.timeout_s or wait_limit()):
                    raise RuntimeError(f"store get timeout: {k}")
            self.log.append(("get", current_rank(), k))
            return self.d[k]

    def wait(self, keys, timeout=None):
        with self.cv:
            t0 = time.time()
            while not all(k in self.d for k in keys):
                self.cv.wait(0.05)
                if time.time() - t0 > (self.timeout_s or wait_limit()):
                    raise RuntimeError(f"store wait timeout: {[k for k in keys if k not in self.d]}")
            self.log.append(("wait", current_rank(), tuple(keys)))


class World:
    """One simulated job: `size` ranks, one storage, one store. Storage and store persist across runs."""

    def __init__(self, size: int = 1):
        self.size = size
        self.storage = MemStore()
        self.kvstore = FakeStore()
        self.hub = Hub(size)
        self.hostnames: Optional[List[str]] = None

    def pg(self, rank: int) -> Optional[FakePG]:
        return FakePG(self, rank)

    def new_hub(self):
        self.hub = Hub(self.size)

    def run(self, fn: Callable[[int, Optional[FakePG]], Any], ranks: Optional[List[int]] = None):
        """Run fn(rank, pg) on every rank in its own thread. Returns [("ok", value) | ("exc", exception)]."""
        install()
        self.new_hub()
        ranks = list(range(self.size)) if ranks is None else ranks
        results: List[Any] = [None] * self.size

        def target(r):
            _tls.rank, _tls.world = r, self
            try:
                results[r] = ("ok", fn(r, self.pg(r)))
            except BaseException as e:  # noqa
                results[r] = ("exc", e)
            finally:
                self.hub.rank_finished(r)

        prev = _CURRENT["world"]
        _CURRENT["world"] = self
        try:
            ths = [threading.Thread(target=target, args=(r,), name=f"rank{r}", daemon=True) for r in ranks]
            for t in ths:
                t.start()
            for t in ths:
                t.join(timeout=wait_limit() * 6)
                if t.is_alive():
                    self.hub.failed = self.hub.failed or "rank thread did not finish"
                    with self.hub.cv:
                        self.hub.cv.notify_all()
            for r in ranks:
                if results[r] is None:
                    results[r] = ("exc", Mismatch("rank thread hung"))
        finally:
            _CURRENT["world"] = prev
        return [results[r] for r in ranks]

    def run1(self, fn: Callable[[], Any]):
        """Run fn() as rank 0 of a 1-rank world on the calling thread (pg=None inside torchsnapshot)."""
        install()
        prev = _CURRENT["world"], getattr(_tls, "rank", None), getattr(_tls, "world", None)
        _CURRENT["world"] = self
        _tls.rank, _tls.world = 0, self
        try:
            return fn()
        finally:
            _CURRENT["world"] = prev[0]
            _tls.rank, _tls.world = prev[1] if prev[1] is not None else 0, prev[2]


# ----------------------------------------------------------------------------------------------
# installation (monkey patches; idempotent)
# ----------------------------------------------------------------------------------------------

def install():
    if _INSTALLED["done"]:
        return
    import torchsnapshot  # noqa
    import torchsnapshot.dist_store as ds
    import torchsnapshot.pg_wrapper as pgw
    import torchsnapshot.snapshot as snapmod
    import torchsnapshot.storage_plugin as sp
    from torchsnapshot.io_types import StoragePlugin

    # make MemPlugin a StoragePlugin subclass without importing torchsnapshot at module import time
    global MemPlugin

    class MemPlugin(_MemPluginBase, StoragePlugin):  # type: ignore
        pass

    global FsProxy

    class FsProxy(_FsProxy, StoragePlugin):  # type: ignore
        pass

    def url_to_storage_plugin(url_path, storage_options=None):
        w = current_world()
        if isinstance(w.storage, FsStore):
            from torchsnapshot.storage_plugins.fs import FSStoragePlugin
            real = FSStoragePlugin(root=os.path.join(w.storage.base, url_path.lstrip("/")))
            return FsProxy(real, url_path, w.storage, current_rank())
        return MemPlugin(url_path, w.storage, current_rank())

    sp.url_to_storage_plugin = url_to_storage_plugin

    PW = pgw.PGWrapper
    orig = {k: getattr(PW, k) for k in ("__init__", "get_rank", "get_world_size", "barrier", "broadcast_object_list",
                                        "all_gather_object", "scatter_object_list")}

    def __init__(self, pg=None):
        if isinstance(pg, FakePG):
            self.pg = pg
        elif pg is None and getattr(_tls, "world", None) is not None and _tls.world.size > 1:
            self.pg = FakePG(_tls.world, _tls.rank)      # "default process group" of the simulated job
        else:
            orig["__init__"](self, pg)

    def fake(self):
        return isinstance(self.pg, FakePG)

    def get_rank(self):
        return self.pg.rank if fake(self) else orig["get_rank"](self)

    def get_world_size(self):
        return self.pg.world.size if fake(self) else orig["get_world_size"](self)

    def barrier(self):
        if fake(self):
            self.pg.world.hub.collective(self.pg.rank, "barrier", None)
        else:
            orig["barrier"](self)

    def broadcast_object_list(self, obj_list, src=0):
        if fake(self):
            res = self.pg.world.hub.collective(self.pg.rank, "broadcast_object_list", list(obj_list))
            obj_list[:] = res[src]
        else:
            orig["broadcast_object_list"](self, obj_list, src=src)

    def all_gather_object(self, obj_list, obj):
        if fake(self):
            res = self.pg.world.hub.collective(self.pg.rank, "all_gather_object", obj)
            for r in range(self.pg.world.size):
                obj_list[r] = res[r]
        else:
            orig["all_gather_object"](self, obj_list, obj)

    def scatter_object_list(self, output_list, input_list, src=0):
        if fake(self):
            res = self.pg.world.hub.collective(self.pg.rank, "scatter_object_list", input_list if self.pg.rank == src else None)
            output_list[0] = res[src][self.pg.rank]
        else:
            orig["scatter_object_list"](self, output_list, input_list, src=src)

    PW.__init__ = __init__
    PW.get_rank = get_rank
    PW.get_world_size = get_world_size
    PW.barrier = barrier
    PW.broadcast_object_list = broadcast_object_list
    PW.all_gather_object = all_gather_object
    PW.scatter_object_list = scatter_object_list

    def get_or_create_store(pg_wrapper):
        return current_world().kvstore

    ds.get_or_create_store = get_or_create_store
    if hasattr(snapmod, "get_or_create_store"):
        snapmod.get_or_create_store = get_or_create_store

    # hostnames for get_local_world_size (all ranks on one host unless World.hostnames is set)
    import socket
    _orig_gethostname = socket.gethostname

    def gethostname():
        w = getattr(_tls, "world", None)
        if w is not None and w.hostnames:
            return w.hostnames[_tls.rank]
        return _orig_gethostname()

    socket.gethostname = gethostname
    _INSTALLED["done"] = True


# ----------------------------------------------------------------------------------------------
# knobs
# ----------------------------------------------------------------------------------------------

KNOB_ENV = {
    "chunk": "TORCHSNAPSHOT_MAX_CHUNK_SIZE_BYTES_OVERRIDE",
    "shard": "TORCHSNAPSHOT_MAX_SHARD_SIZE_BYTES_OVERRIDE",
    "slab": "TORCHSNAPSHOT_SLAB_SIZE_THRESHOLD_BYTES_OVERRIDE",
    "conc": "TORCHSNAPSHOT_MAX_PER_RANK_IO_CONCURRENCY_OVERRIDE",
    "nobatch": "TORCHSNAPSHOT_DISABLE_BATCHING",
    "budget": "TORCHSNAPSHOT_PER_RANK_MEMORY_BUDGET_BYTES",
}


@contextmanager
def knobs(**kw):
    """knobs(chunk=16, slab=64, nobatch=True, budget=100, conc=2); None/absent = default."""
    prev = {}
    try:
        for k, env in KNOB_ENV.items():
            prev[env] = os.environ.get(env)
            v = kw.get(k)
            if v is None:
                os.environ.pop(env, None)
            else:
                os.environ[env] = ("1" if v else "0") if k == "nobatch" else str(v)
        yield
    finally:
        for env, v in prev.items():
            if v is None:
                os.environ.pop(env, None)
            else:
                os.environ[env] = v


def rand_knobs(rng, small: bool = True) -> Dict[str, Any]:
    c = lambda xs: rng.choice(xs)
    return {
        "chunk": c([1, 3, 8, 16, 64, 1000, None]),
        "slab": c([1, 5, 16, 64, 4096, None]),
        "nobatch": c([False, False, True]),
        "budget": c([1, 7, 50, 1000, 10 ** 9, 10 ** 9]),
        "conc": c([1, 2, 16, None]),
        "shard": c([1, 4, 16, 64, None]),
    }
