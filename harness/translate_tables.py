"""Translator: /repo's literal tables and constants -> lean/TsGen/Tables.lean.

Parses the sources with `ast` (never imports them). Only literal constructs are accepted; anything
else raises, which the runner treats as a broken tie (see DESIGN.md section 2.3).
"""
from __future__ import annotations

import ast
import os
from fractions import Fraction
from typing import Any, Dict, List, Tuple


class TranslateError(Exception):
    pass


def _module(repo: str, rel: str) -> ast.Module:
    with open(os.path.join(repo, rel)) as f:
        return ast.parse(f.read(), rel)


def _assign_value(mod: ast.Module, name: str) -> ast.expr:
    for node in mod.body:
        if isinstance(node, ast.Assign):
            for t in node.targets:
                if isinstance(t, ast.Name) and t.id == name:
                    return node.value
        if isinstance(node, ast.AnnAssign) and isinstance(node.target, ast.Name) and node.target.id == name:
            if node.value is None:
                raise TranslateError(f"{name} has no value")
            return node.value
    raise TranslateError(f"{name} not found")


def _dtype_name(e: ast.expr) -> str:
    if isinstance(e, ast.Attribute) and isinstance(e.value, ast.Name) and e.value.id == "torch":
        return e.attr
    raise TranslateError(f"not a torch.<dtype>: {ast.dump(e)}")


def _int_expr(e: ast.expr) -> int:
    """Integer literal arithmetic (+, -, *, //, **) only."""
    if isinstance(e, ast.Constant) and isinstance(e.value, int) and not isinstance(e.value, bool):
        return e.value
    if isinstance(e, ast.BinOp):
        a, b = _int_expr(e.left), _int_expr(e.right)
        if isinstance(e.op, ast.Mult):
            return a * b
        if isinstance(e.op, ast.Add):
            return a + b
        if isinstance(e.op, ast.Sub):
            return a - b
        if isinstance(e.op, ast.Pow):
            return a ** b
        if isinstance(e.op, ast.FloorDiv):
            return a // b
    raise TranslateError(f"not a literal int expression: {ast.dump(e)}")


def _dtype_list(e: ast.expr) -> List[str]:
    if not isinstance(e, ast.List):
        raise TranslateError("expected list literal")
    return [_dtype_name(x) for x in e.elts]


def _dtype_dict(e: ast.expr, val) -> List[Tuple[str, Any]]:
    if not isinstance(e, ast.Dict):
        raise TranslateError("expected dict literal")
    return [(_dtype_name(k), val(v)) for k, v in zip(e.keys, e.values)]


def _str(e: ast.expr) -> str:
    if isinstance(e, ast.Constant) and isinstance(e.value, str):
        return e.value
    raise TranslateError(f"not a str literal: {ast.dump(e)}")


def _enum_values(mod: ast.Module, cls: str) -> List[Tuple[str, str]]:
    for node in mod.body:
        if isinstance(node, ast.ClassDef) and node.name == cls:
            out = []
            for st in node.body:
                if isinstance(st, ast.Assign) and len(st.targets) == 1 and isinstance(st.targets[0], ast.Name):
                    out.append((st.targets[0].id, _str(st.value)))
            return out
    raise TranslateError(f"enum {cls} not found")


def _string_to_dtype(mod: ast.Module, d2s: List[Tuple[str, str]]) -> List[Tuple[str, str]]:
    """`_STRING_TO_DTYPE = {val: key for key, val in _DTYPE_TO_STRING.items()}` evaluated symbolically
    (later keys overwrite earlier ones, as in Python)."""
    e = _assign_value(mod, "_STRING_TO_DTYPE")
    if isinstance(e, ast.Dict):
        return [(_str(k), _dtype_name(v)) for k, v in zip(e.keys, e.values)]
    ok = (
        isinstance(e, ast.DictComp)
        and isinstance(e.key, ast.Name) and isinstance(e.value, ast.Name)
        and len(e.generators) == 1 and not e.generators[0].ifs
        and isinstance(e.generators[0].target, ast.Tuple)
        and [getattr(x, "id", None) for x in e.generators[0].target.elts] == [e.value.id, e.key.id]
        and isinstance(e.generators[0].iter, ast.Call)
        and isinstance(e.generators[0].iter.func, ast.Attribute)
        and e.generators[0].iter.func.attr == "items"
        and isinstance(e.generators[0].iter.func.value, ast.Name)
        and e.generators[0].iter.func.value.id == "_DTYPE_TO_STRING"
    )
    if not ok:
        raise TranslateError("_STRING_TO_DTYPE is not the inverse comprehension of _DTYPE_TO_STRING")
    out: Dict[str, str] = {}
    for k, v in d2s:
        out[v] = k
    return list(out.items())


def _lstr(s: str) -> str:
    return '"' + s.replace("\\", "\\\\").replace('"', '\\"') + '"'


def _lean_list(items: List[str]) -> str:
    return "[" + ", ".join(items) + "]"


def generate(repo: str) -> str:
    ser = _module(repo, "torchsnapshot/serialization.py")
    knobs = _module(repo, "torchsnapshot/knobs.py")
    sched = _module(repo, "torchsnapshot/scheduler.py")
    man = _module(repo, "torchsnapshot/manifest.py")
    snap = _module(repo, "torchsnapshot/snapshot.py")

    d2s = _dtype_dict(_assign_value(ser, "_DTYPE_TO_STRING"), _str)
    d2e = _dtype_dict(_assign_value(ser, "_DTYPE_TO_ELEMENT_SIZE"), _int_expr)
    s2d = _string_to_dtype(ser, d2s)
    all_d = _dtype_list(_assign_value(ser, "ALL_SUPPORTED_DTYPES"))
    bp_d = _dtype_list(_assign_value(ser, "BUFFER_PROTOCOL_SUPPORTED_DTYPES"))
    q_d = _dtype_list(_assign_value(ser, "SUPPORTED_QUANTIZED_DTYPES"))
    serializers = _enum_values(ser, "Serializer")
    prims = _enum_values(man, "PrimitiveType")

    mult = _assign_value(sched, "_AVAILABLE_MEMORY_MULTIPLIER")
    if not (isinstance(mult, ast.Constant) and isinstance(mult.value, float)):
        raise TranslateError("_AVAILABLE_MEMORY_MULTIPLIER is not a float literal")
    frac = Fraction(repr(mult.value))

    consts = {
        "defaultMaxChunkSizeBytes": _int_expr(_assign_value(knobs, "_DEFAULT_MAX_CHUNK_SIZE_BYTES")),
        "defaultMaxShardSizeBytes": _int_expr(_assign_value(knobs, "_DEFAULT_MAX_SHARD_SIZE_BYTES")),
        "defaultSlabSizeThresholdBytes": _int_expr(_assign_value(knobs, "_DEFAULT_SLAB_SIZE_THRESHOLD_BYTES")),
        "defaultMaxPerRankIoConcurrency": _int_expr(_assign_value(knobs, "_DEFAULT_MAX_PER_RANK_IO_CONCURRENCY")),
        "maxPerRankMemoryBudgetBytes": _int_expr(_assign_value(sched, "_MAX_PER_RANK_MEMORY_BUDGET_BYTES")),
        "maxPerRankCpuConcurrency": _int_expr(_assign_value(sched, "_MAX_PER_RANK_CPU_CONCURRENCY")),
        "availableMemoryMultiplierNum": frac.numerator,
        "availableMemoryMultiplierDen": frac.denominator,
    }
    fname = _str(_assign_value(snap, "SNAPSHOT_METADATA_FNAME"))

    def pairs(ps, val=_lstr):
        return _lean_list([f"({_lstr(a)}, {val(b)})" for a, b in ps])

    lines = [
        "/- GENERATED by harness/translate_tables.py from /repo on every run. Do not edit. -/",
        "namespace Ts.Gen",
        "",
        "/-- `_DTYPE_TO_STRING` (keys written as the attribute name after `torch.`). -/",
        f"def dtypeToString : List (String × String) := {pairs(d2s)}",
        "/-- `_DTYPE_TO_ELEMENT_SIZE`. -/",
        f"def dtypeToElementSize : List (String × Nat) := {pairs(d2e, str)}",
        "/-- `_STRING_TO_DTYPE` (the inverse comprehension, evaluated with Python's last-wins rule). -/",
        f"def stringToDtype : List (String × String) := {pairs(s2d)}",
        f"def allSupportedDtypes : List String := {_lean_list([_lstr(x) for x in all_d])}",
        f"def bufferProtocolDtypes : List String := {_lean_list([_lstr(x) for x in bp_d])}",
        f"def quantizedDtypes : List String := {_lean_list([_lstr(x) for x in q_d])}",
        "/-- `Serializer` enum: (member name, value). -/",
        f"def serializers : List (String × String) := {pairs(serializers)}",
        "/-- `PrimitiveType` enum: (member name, value). -/",
        f"def primitiveTypes : List (String × String) := {pairs(prims)}",
        f"def snapshotMetadataFname : String := {_lstr(fname)}",
    ]
    for k, v in consts.items():
        lines.append(f"def {k} : Nat := {v}")
    lines += ["", "end Ts.Gen", ""]
    return "\n".join(lines)


if __name__ == "__main__":
    import sys
    print(generate(sys.argv[1] if len(sys.argv) > 1 else "/repo"))
