"""Generators for application states, bit-exact comparison, JSON-able descriptions.

All randomness comes from the `random.Random` passed in (derived from VERIF_SEED by the runner).
Tensors are built from explicit byte strings so that NaN payloads, -0.0 and extremes occur and so that
a case can be written to a replay file and rebuilt exactly (`describe` / `build`).
"""
from __future__ import annotations

import struct
from collections import OrderedDict
from typing import Any, Dict, List, Optional, Tuple

import torch

DTYPES = [torch.float64, torch.float32, torch.float16, torch.bfloat16, torch.complex128, torch.complex64,
          torch.int64, torch.int32, torch.int16, torch.int8, torch.uint8, torch.bool]
DT_NAME = {d: str(d).replace("torch.", "") for d in DTYPES}
NAME_DT = {v: k for k, v in DT_NAME.items()}


def esize(dt) -> int:
    return torch.empty((), dtype=dt).element_size()


def numel(shape) -> int:
    n = 1
    for s in shape:
        n *= s
    return n


def tensor_from_bytes(dt, shape, data: bytes) -> torch.Tensor:
    """Contiguous tensor of dtype/shape whose row-major storage bytes are `data` (bool: byte & 1)."""
    n = numel(shape)
    if n == 0:
        return torch.empty(shape, dtype=dt)
    raw = torch.tensor(list(data), dtype=torch.uint8)
    if dt == torch.bool:
        return (raw % 2 == 1).reshape(shape)
    return raw.view(dt).reshape(shape).clone()


def tensor_bytes(t: torch.Tensor) -> bytes:
    """Row-major logical contents as bytes (layout-independent)."""
    if t.numel() == 0:
        return b""
    c = torch.empty(t.numel(), dtype=t.dtype)
    c.copy_(t.detach().reshape(-1))          # fresh stride-1 storage whatever t's layout
    if c.dtype == torch.bool:
        return c.to(torch.uint8).numpy().tobytes()
    return c.view(torch.uint8).numpy().tobytes()


_PATTERNS = {
    8: [b"\x00" * 8, struct.pack("<d", -0.0), struct.pack("<d", float("inf")), struct.pack("<d", float("-inf")),
        b"\x01\x00\x00\x00\x00\x00\xf8\x7f", b"\xff" * 8, b"\x01" + b"\x00" * 7, struct.pack("<q", -2 ** 63)],
    4: [b"\x00" * 4, struct.pack("<f", -0.0), b"\x01\x00\xc0\x7f", b"\xff" * 4, b"\x01\x00\x00\x00", struct.pack("<f", float("inf"))],
    2: [b"\x00\x00", b"\x00\x80", b"\x01\x7e", b"\xff\xff", b"\x01\x00", b"\x80\x7f", b"\xc1\x7f"],
    1: [b"\x00", b"\x01", b"\x7f", b"\x80", b"\xff"],
}


def rand_elem_bytes(rng, es: int) -> bytes:
    if es == 16:
        return rand_elem_bytes(rng, 8) + rand_elem_bytes(rng, 8)
    if rng.random() < 0.4:
        return rng.choice(_PATTERNS[es])
    return bytes(rng.randrange(256) for _ in range(es))


LAYOUTS = ["contig", "transposed", "strided", "offset", "broadcast", "fortran", "channels_last"]


def apply_layout(t: torch.Tensor, layout: str) -> torch.Tensor:
    """Return a tensor with the same logical contents as `t` but the requested memory layout."""
    if t.dim() == 0 or t.numel() == 0:
        return t
    if layout == "transposed" and t.dim() >= 2:
        return t.transpose(0, 1).contiguous().transpose(0, 1)
    if layout == "fortran" and t.dim() >= 2:
        return t.permute(*reversed(range(t.dim()))).contiguous().permute(*reversed(range(t.dim())))
    if layout == "channels_last":
        if t.dim() == 4:
            return t.contiguous(memory_format=torch.channels_last)
        if t.dim() == 5:
            return t.contiguous(memory_format=torch.channels_last_3d)
        return t
    if layout == "strided":
        big = torch.zeros([t.shape[0] * 2] + list(t.shape[1:]), dtype=t.dtype)
        big[::2] = t
        return big[::2]
    if layout == "offset":
        big = torch.zeros([t.shape[0] + 1] + list(t.shape[1:]), dtype=t.dtype)
        big[1:] = t
        return big[1:]
    if layout == "broadcast":
        # only valid if all rows equal; make it so by broadcasting row 0
        return t[:1].expand(t.shape)
    return t


def rand_shape(rng, max_elems: int = 24) -> List[int]:
    nd = rng.choice([0, 1, 1, 2, 2, 3, 4, 4, 5])
    for _ in range(20):
        shape = [rng.choice([0, 1, 1, 2, 3, 4, 5, 7]) for _ in range(nd)]
        if numel(shape) <= max_elems:
            return shape
    return [rng.randint(0, 5)]


def rand_tensor_desc(rng, max_elems: int = 24) -> Dict[str, Any]:
    dt = rng.choice(DTYPES)
    shape = rand_shape(rng, max_elems)
    layout = rng.choice(LAYOUTS)
    if layout == "channels_last":
        # make it a real dense-but-not-row-major tensor: >= 2 channels and >= 2 spatial positions
        cands = [[1, 2, 2, 1], [1, 2, 1, 2], [2, 2, 1, 2], [1, 3, 2, 2], [2, 2, 2, 2], [1, 2, 2, 1, 2], [1, 2, 1, 2, 2]]
        cands = [c for c in cands if numel(c) <= max(max_elems, 4)]
        shape = rng.choice(cands)
    es = esize(dt)
    data = b"".join(rand_elem_bytes(rng, es) for _ in range(numel(shape)))
    if dt == torch.bool:
        data = bytes(b & 1 for b in data)
    return {"t": "tensor", "dtype": DT_NAME[dt], "shape": shape, "data": list(data), "layout": layout}


def build_tensor(d: Dict[str, Any]) -> torch.Tensor:
    t = tensor_from_bytes(NAME_DT[d["dtype"]], d["shape"], bytes(d["data"]))
    return apply_layout(t, d.get("layout", "contig"))


PRIMS = [0, 1, -5, 2 ** 70, -(2 ** 64), True, False, "", "str", "é ü", "a\nb\"c\\", b"", b"by\x00\xff",
         1.5, -0.0, float("inf"), 5e-324]
OBJECTS = [("set", [1, 2]), ("tuple", [1, "a"]), ("none", None), ("floatkeydict", None), ("complex", None), ("tuplekeydict", None),
           # subclasses of list / dict are NOT flattened (`type(obj) == list` tests): they travel as opaque objects and must come
           # back as the same class
           # (only classes the installed torch.load(weights_only=True default) accepts can be restored at all in this environment:
           #  Counter is; defaultdict / user-defined subclasses are not - the same reason tests/test_batcher.py fails here)
           ("counter", None)]


class ListSub(list):
    """a user-defined list subclass (e.g. a container with extra behaviour)"""


class DictSub(dict):
    """a user-defined dict subclass"""



def rand_leaf_desc(rng, tensors: float = 0.6, max_elems: int = 24) -> Dict[str, Any]:
    k = rng.random()
    if k < tensors:
        return rand_tensor_desc(rng, max_elems)
    if k < tensors + (1 - tensors) * 0.6:
        v = rng.choice(PRIMS)
        if isinstance(v, float):
            return {"t": "float", "bits": struct.unpack("<Q", struct.pack("<d", v))[0]}
        if isinstance(v, bytes):
            return {"t": "bytes", "v": list(v)}
        if isinstance(v, bool):
            return {"t": "bool", "v": v}
        if isinstance(v, int):
            return {"t": "int", "v": str(v)}
        return {"t": "str", "v": [ord(c) for c in v]}
    return {"t": "obj", "kind": rng.choice(OBJECTS)[0]}


def build_leaf(d: Dict[str, Any]) -> Any:
    t = d["t"]
    if t == "tensor":
        return build_tensor(d)
    if t == "tensor_big":
        # a large tensor described by (dtype, n, seed) instead of a byte list (keeps cases JSON-able)
        base = (torch.arange(d["n"], dtype=torch.int64) * 2654435761 + d.get("seed", 0)) % 251
        return base.to(NAME_DT[d["dtype"]])
    if t == "float":
        return struct.unpack("<d", struct.pack("<Q", d["bits"]))[0]
    if t == "bytes":
        return bytes(d["v"])
    if t == "bool":
        return bool(d["v"])
    if t == "int":
        return int(d["v"])
    if t == "str":
        return "".join(chr(c) for c in d["v"])
    if t == "obj":
        import collections
        return {"set": {1, 2}, "tuple": (1, "a"), "none": None, "floatkeydict": {1.5: 2}, "complex": complex(1, -2),
                "tuplekeydict": {("a",): 1}, "counter": collections.Counter("aab"),
                "defaultdict": collections.defaultdict(int, {"a": 1, "b": 2}), "listsub": ListSub([1, "x"]),
                "dictsub": DictSub(a=1, b=[2])}[d["kind"]]
    raise ValueError(t)


SAFE_KEYS = ["a", "b", "c/d", "%", "x y", 1, 2, "10", "k", "w%2Fz", "é", -3, "weight", "bias"]


def key_desc(k) -> Dict[str, Any]:
    if isinstance(k, bool):
        return {"k": "bool", "v": k}
    if isinstance(k, int):
        return {"k": "int", "v": str(k)}
    return {"k": "str", "v": [ord(c) for c in k]}


def build_key(d):
    if d["k"] == "bool":
        return bool(d["v"])
    if d["k"] == "int":
        return int(d["v"])
    return "".join(chr(c) for c in d["v"])


def rand_tree_desc(rng, depth: int, keys=None, tensors: float = 0.6, max_elems: int = 24) -> Dict[str, Any]:
    keys = keys or SAFE_KEYS
    if depth == 0 or rng.random() < 0.35:
        return rand_leaf_desc(rng, tensors, max_elems)
    k = rng.random()
    if k < 0.3:
        return {"t": "list", "items": [rand_tree_desc(rng, depth - 1, keys, tensors, max_elems) for _ in range(rng.randint(0, 3))]}
    ks = rng.sample(keys, rng.randint(0, min(4, len(keys))))
    # python dict semantics: keys must be distinct under ==; str(k) collisions make the dict unflattenable (kept opaque)
    items = [[key_desc(x), rand_tree_desc(rng, depth - 1, keys, tensors, max_elems)] for x in ks]
    return {"t": "dict" if k < 0.7 else "odict", "items": items}


def build_tree(d: Dict[str, Any]) -> Any:
    t = d["t"]
    if t == "list":
        return [build_tree(x) for x in d["items"]]
    if t == "dict":
        return {build_key(k): build_tree(v) for k, v in d["items"]}
    if t == "odict":
        return OrderedDict((build_key(k), build_tree(v)) for k, v in d["items"])
    return build_leaf(d)


def short(d: Any, lim: int = 12) -> Any:
    """Abbreviated description for evidence samples."""
    if isinstance(d, dict):
        if d.get("t") == "tensor":
            return {"t": "tensor", "dtype": d["dtype"], "shape": d["shape"], "layout": d.get("layout"), "nbytes": len(d["data"])}
        return {k: short(v, lim) for k, v in d.items()}
    if isinstance(d, list):
        return [short(x, lim) for x in d[:lim]] + (["..."] if len(d) > lim else [])
    return d


# ----------------------------------------------------------------------------------------------
# comparison
# ----------------------------------------------------------------------------------------------

def tensor_eq(a: torch.Tensor, b: Any) -> bool:
    return (isinstance(b, torch.Tensor) and a.dtype == b.dtype and tuple(a.shape) == tuple(b.shape)
            and tensor_bytes(a) == tensor_bytes(b))


def deep_eq(a: Any, b: Any, path: str = "") -> Optional[str]:
    """None if equal (types of containers and keys, key order, float bits, tensor bytes); else a description."""
    if isinstance(a, torch.Tensor):
        if not isinstance(b, torch.Tensor):
            return f"{path}: tensor vs {type(b).__name__}"
        if a.dtype != b.dtype:
            return f"{path}: dtype {a.dtype} vs {b.dtype}"
        if tuple(a.shape) != tuple(b.shape):
            return f"{path}: shape {tuple(a.shape)} vs {tuple(b.shape)}"
        if tensor_bytes(a) != tensor_bytes(b):
            return f"{path}: tensor contents differ"
        return None
    if type(a) != type(b):
        return f"{path}: type {type(a).__name__} vs {type(b).__name__}"
    if isinstance(a, dict):
        ka, kb = list(a.keys()), list(b.keys())
        if [(type(k).__name__, k) for k in ka] != [(type(k).__name__, k) for k in kb]:
            return f"{path}: keys {ka!r} vs {kb!r}"
        for k in ka:
            r = deep_eq(a[k], b[k], f"{path}/{k!r}")
            if r:
                return r
        return None
    if isinstance(a, (list, tuple)):
        if len(a) != len(b):
            return f"{path}: len {len(a)} vs {len(b)}"
        for i, (x, y) in enumerate(zip(a, b)):
            r = deep_eq(x, y, f"{path}[{i}]")
            if r:
                return r
        return None
    if isinstance(a, float):
        return None if struct.pack("<d", a) == struct.pack("<d", b) else f"{path}: float bits differ {a!r} vs {b!r}"
    if isinstance(a, complex):
        return None if (struct.pack("<dd", a.real, a.imag) == struct.pack("<dd", b.real, b.imag)) else f"{path}: complex differs"
    return None if a == b else f"{path}: {a!r} vs {b!r}"


def deep_clone(a: Any) -> Any:
    if isinstance(a, torch.Tensor):
        return a.detach().clone()
    if type(a) is OrderedDict:
        return OrderedDict((k, deep_clone(v)) for k, v in a.items())
    if type(a) is dict:
        return {k: deep_clone(v) for k, v in a.items()}
    if type(a) is list:
        return [deep_clone(v) for v in a]
    import copy
    return copy.deepcopy(a)          # opaque objects, incl. subclasses of list / dict: keep the class


def digest(a: Any) -> Any:
    """JSON-able canonical digest of a structure (for evidence / comparison with the model)."""
    if isinstance(a, torch.Tensor):
        return {"t": "tensor", "dtype": str(a.dtype).replace("torch.", ""), "shape": list(a.shape), "data": list(tensor_bytes(a))}
    if isinstance(a, OrderedDict):
        return {"t": "odict", "items": [[key_desc(k), digest(v)] for k, v in a.items()]}
    if isinstance(a, dict):
        return {"t": "dict", "items": [[key_desc(k), digest(v)] for k, v in a.items()]}
    if isinstance(a, list):
        return {"t": "list", "items": [digest(v) for v in a]}
    if isinstance(a, bool):
        return {"t": "bool", "v": a}
    if isinstance(a, int):
        return {"t": "int", "v": str(a)}
    if isinstance(a, float):
        return {"t": "float", "bits": struct.unpack("<Q", struct.pack("<d", a))[0]}
    if isinstance(a, str):
        return {"t": "str", "v": [ord(c) for c in a]}
    if isinstance(a, bytes):
        return {"t": "bytes", "v": list(a)}
    return {"t": "obj", "repr": repr(a)}


# ----------------------------------------------------------------------------------------------
# Stateful that records what load_state_dict received
# ----------------------------------------------------------------------------------------------

class RecStateful:
    """A Stateful whose state_dict is an arbitrary dict and which records the argument of load_state_dict."""

    def __init__(self, sd: Dict[Any, Any]):
        self.sd = sd
        self.loaded: Any = None
        self.load_calls = 0
        self.sd_calls = 0

    def state_dict(self):
        self.sd_calls += 1
        return self.sd

    def load_state_dict(self, sd):
        self.load_calls += 1
        self.loaded = sd
