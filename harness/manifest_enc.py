"""Wire encoding of torchsnapshot manifest entries for the Lean driver (Driver/ManifestOpsOps.lean).

Entries are abstracted exactly as `TsModel.ManifestOps.Entry` does: containers keep their key lists, leaves
(Tensor / object / primitive entries) become `(replicated flag, payload id)`, where the payload id is
interned from every other field, so two leaves get the same id iff the dataclasses compare equal up to the
flag. Canonical forms used for comparison sort what the code keeps in dicts whose order is not
property-relevant (entry order inside a manifest, shard / chunk order) and keep container key order.
"""
from __future__ import annotations

import dataclasses
from typing import Any, Dict, List, Tuple


def S(s: str) -> List[int]:
    return [ord(c) for c in s]


def unS(l: List[int]) -> str:
    return "".join(chr(c) for c in l)


class Interner:
    def __init__(self):
        self.ids: Dict[Any, int] = {}
        self.rev: List[Any] = []

    def __call__(self, key) -> int:
        if key not in self.ids:
            self.ids[key] = len(self.rev)
            self.rev.append(key)
        return self.ids[key]


def _freeze(o):
    if isinstance(o, (list, tuple)):
        return tuple(_freeze(x) for x in o)
    if isinstance(o, dict):
        return tuple(sorted((k, _freeze(v)) for k, v in o.items()))
    return o


def enc_key(k) -> Dict[str, Any]:
    if isinstance(k, bool):
        return {"b": k}
    if isinstance(k, int):
        return {"i": k}
    if isinstance(k, str):
        return {"s": S(k)}
    raise TypeError(f"unsupported container key {k!r}")


def enc_shard(s, intern: Interner) -> Dict[str, Any]:
    return {"o": list(s.offsets), "s": list(s.sizes), "id": intern(("T", _freeze(dataclasses.asdict(s.tensor))))}


def enc_entry(e, intern: Interner) -> Dict[str, Any]:
    from torchsnapshot.manifest import (ChunkedTensorEntry, DictEntry, ListEntry, ObjectEntry, OrderedDictEntry,
                                        PrimitiveEntry, ShardedTensorEntry, TensorEntry)
    if isinstance(e, ListEntry):
        return {"t": "list"}
    if isinstance(e, OrderedDictEntry):
        return {"t": "odict", "keys": [enc_key(k) for k in e.keys]}
    if isinstance(e, DictEntry):
        return {"t": "dict", "keys": [enc_key(k) for k in e.keys]}
    if isinstance(e, ChunkedTensorEntry):
        return {"t": "chunked", "r": bool(e.replicated), "meta": intern(("M", e.dtype, tuple(e.shape))),
                "chunks": [enc_shard(c, intern) for c in e.chunks]}
    if isinstance(e, ShardedTensorEntry):
        return {"t": "sharded", "shards": [enc_shard(s, intern) for s in e.shards]}
    if isinstance(e, (TensorEntry, ObjectEntry, PrimitiveEntry)):
        d = dataclasses.asdict(e)
        r = bool(d.pop("replicated"))
        return {"t": "leaf", "r": r, "id": intern((type(e).__name__, _freeze(d)))}
    raise TypeError(f"entry type not modelled: {type(e).__name__}")


def enc_manifest(m: Dict[str, Any], intern: Interner) -> List[Any]:
    return [[S(p), enc_entry(e, intern)] for p, e in m.items()]


def _shard_key(s):
    return (s["o"], s["s"], s["id"])


def canon_entry(e: Dict[str, Any]) -> Dict[str, Any]:
    e = dict(e)
    if e["t"] == "chunked":
        e["chunks"] = sorted(e["chunks"], key=_shard_key)
    if e["t"] == "sharded":
        e["shards"] = sorted(e["shards"], key=_shard_key)
    return e


def canon_manifest(m: List[Any]) -> List[Any]:
    """sorted by path; container key order kept; shard/chunk lists sorted"""
    return sorted(([p, canon_entry(e)] for p, e in m), key=lambda pe: pe[0])


def err_name(exc: BaseException) -> str:
    for cls, name in ((KeyError, "KeyError"), (IndexError, "IndexError"), (AttributeError, "AttributeError"),
                      (ValueError, "ValueError")):
        if isinstance(exc, cls):
            return name
    return type(exc).__name__


def show_manifest(m: List[Any]) -> List[Any]:
    """human-readable form of an encoded manifest for replay output"""
    out = []
    for p, e in m:
        d = dict(e)
        if "keys" in d:
            d["keys"] = [unS(k["s"]) if "s" in k else (k.get("i") if "i" in k else k.get("b")) for k in d["keys"]]
        out.append([unS(p), d])
    return out
