"""Launcher + oracles for harness/props/fsize_worker.py (writes under an RLIMIT_FSIZE lower than the data: short writes)."""
from __future__ import annotations

import json
import os
import shutil
import subprocess
import sys
from typing import Any, Dict

from common import Ctx


def _run(cfg: Dict[str, Any], tag: str):
    from common import OUT_DIR, REPO
    import sim
    root = os.path.join(OUT_DIR, f"fsize_{tag}_{os.getpid()}")
    shutil.rmtree(root, ignore_errors=True)
    os.makedirs(root)
    cfg = dict(cfg, dir=root)
    cfg_path, out_path = os.path.join(root, "cfg.json"), os.path.join(root, "out.json")
    json.dump(cfg, open(cfg_path, "w"))
    worker = os.path.join(os.path.dirname(os.path.abspath(__file__)), "props", "fsize_worker.py")
    try:
        p = subprocess.run([sys.executable, worker, cfg_path, out_path], env=dict(os.environ, VERIF_REPO=REPO),
                           stdout=subprocess.PIPE, stderr=subprocess.STDOUT, timeout=6 * sim.wait_limit())
        tail = p.stdout.decode("utf-8", "replace")[-500:]
    except subprocess.TimeoutExpired:
        tail = "timeout"
    res = json.load(open(out_path)) if os.path.exists(out_path) else None
    shutil.rmtree(root, ignore_errors=True)
    return res, tail


def plugin_case(ctx: Ctx, cfg: Dict[str, Any], suite: str = "fsize_limit_plugin"):
    """C20: a write that RETURNS must have stored exactly the buffer (a short write must not pass for a completed one)."""
    res, tail = _run(dict(cfg, mode="plugin"), "plugin")
    inp = dict(cfg, fsize_limit="plugin")
    if res is None:
        ctx.count("fsize.worker_failed")
        ctx.notes.append(f"fsize plugin worker did not complete: {tail}")
        ctx.case(suite, dict(inp, completed=False), nontrivial=False, key=inp)
        return
    for r in res:
        ctx.count("fsize.plugin." + r["outcome"].split(":")[0])
        if ctx.driver and r["n"] <= 300000:
            m = ctx.driver.call({"op": "fs_write_limit", "limit": cfg["limit"], "n": r["n"]})
            real = {"outcome": r["outcome"].split(":")[0], "file_size": r["file_size"], "content_ok": bool(r["content_ok"])}
            if real != {k: m.get(k) for k in real}:
                ctx.disagree("fs_write_limit", inp, real, m, "plugin write under a file-size limit differs from the short-write model")
        if r["outcome"] == "returned" and not r["content_ok"]:
            ctx.fail("short-write-reported-as-complete",
                     f"FSStoragePlugin.write of {r['n']} bytes ({r['kind']}) returned normally under a file-size limit of {cfg['limit']}, "
                     f"but the file holds {r['file_size']} bytes / different content", inp, r, suite=suite)
    ctx.case(suite, dict(inp, outcomes=[r["outcome"] for r in res]), nontrivial=any(r["outcome"] != "returned" for r in res), key=inp)


def take_case(ctx: Ctx, cfg: Dict[str, Any], suite: str = "fsize_limit_take"):
    """C02 / C03: with a payload write cut short by the file-size limit, take / async_take+wait must raise and commit
    nothing - or, if they return, the snapshot must be committed and restore exactly."""
    res, tail = _run(dict(cfg, mode="take"), "take")
    inp = dict(cfg, fsize_limit="take")
    if res is None:
        ctx.count("fsize.worker_failed")
        ctx.notes.append(f"fsize take worker did not complete: {tail}")
        ctx.case(suite, dict(inp, completed=False), nontrivial=False, key=inp)
        return
    for mode, r in res.items():
        ctx.count(f"fsize.take.{mode}." + r["outcome"].split(":")[0])
        if r["outcome"] == "returned":
            if not r["metadata"] or r.get("restore") != "equal":
                what = (f"a file-size limit of {cfg['limit']} bytes" if cfg.get("limit") else f"an injected {cfg.get('fault')} write failure")
                ctx.fail("short-write-committed" if cfg.get("limit") else "failed-write-not-reported",
                         f"{mode} take returned normally under {what}, yet the snapshot is not a complete one "
                         f"(metadata={r['metadata']}, restore={r.get('restore')})", inp, r, suite=suite)
        elif r["metadata"]:
            ctx.fail("committed-after-failed-write", f"{mode} take raised ({r['outcome']}) but metadata was committed "
                     f"(restore: {r.get('restore')})", inp, r, suite=suite)
    ctx.case(suite, dict(inp, outcomes={m: r["outcome"] for m, r in res.items()}),
             nontrivial=any(r["outcome"] != "returned" for r in res.values()), key=inp)


def rand_plugin_cfg(rng) -> Dict[str, Any]:
    limit = rng.choice([4096, 65536, 1 << 20])
    sizes = [limit - 1, limit, limit + 1, limit * 2 + 17, rng.randint(1, limit), rng.randint(limit + 1, 4 * limit)]
    rng.shuffle(sizes)
    return {"limit": limit, "writes": [[n, rng.choice(["bytes", "memoryview"])] for n in sizes]}


def rand_take_cfg(rng) -> Dict[str, Any]:
    limit = rng.choice([8192, 65536, 1 << 20])
    big = (limit // 4) * rng.choice([2, 4])          # float32 elements: 2x or 4x the limit in bytes
    elems = [big] + [rng.randint(1, 50) for _ in range(rng.randint(0, 2))]
    rng.shuffle(elems)
    return {"limit": limit, "elems": elems, "nobatch": rng.random() < 0.5}


def rand_fault_cfg(rng) -> Dict[str, Any]:
    """no size limit; the real plugin's write raises for the metadata object or for the payload objects"""
    return {"limit": 0, "fault": rng.choice(["metadata", "metadata", "payload"]), "elems": [rng.randint(1, 200) for _ in range(rng.randint(1, 3))],
            "nobatch": rng.random() < 0.5}
