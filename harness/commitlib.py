"""Shared machinery of the C13 / C02 / C03 checks: scenarios over `detsim`, translation of an observed
linearised history into the events of the Lean model (`TsModel.Commit`), the model replay through the
driver, and the oracles evaluated on the real history.
"""
from __future__ import annotations

import os
import random
from typing import Any, Dict, List, Optional, Tuple

import detsim
import sim as _sim

SKIP = {"threadStart", "ioEnter", "collEnter", "coll", "asyncTakeReturn", "read", "freshReadOk", "freshReadFail"}


# --------------------------------------------------------------------------------------------------
# workloads
# --------------------------------------------------------------------------------------------------

def make_state(spec: Dict[str, Any], rank: int):
    """spec = {"tensors": [n_elems per tensor...] per rank list, "seed": int}: rank-private tensors with
    distinct, reproducible contents + a primitive."""
    import torch
    from torchsnapshot import StateDict
    sizes = spec["tensors"][rank]
    d = {}
    for i, n in enumerate(sizes):
        g = (spec.get("seed", 0) * 131 + rank * 17 + i * 7) % 251
        d[f"t{i}"] = (torch.arange(n, dtype=torch.float32) * 3 + g).reshape(-1)
    d["step"] = spec.get("seed", 0) * 10 + rank
    return {"m": StateDict(**d)}


def zero_state(spec: Dict[str, Any], rank: int):
    import torch
    from torchsnapshot import StateDict
    d = {f"t{i}": torch.zeros(n, dtype=torch.float32) for i, n in enumerate(spec["tensors"][rank])}
    d["step"] = -1
    return {"m": StateDict(**d)}


def state_equal(a, b) -> bool:
    import torch
    sa, sb = a["m"].state_dict(), b["m"].state_dict()
    if list(sa.keys()) != list(sb.keys()):
        return False
    for k in sa:
        x, y = sa[k], sb[k]
        if isinstance(x, torch.Tensor):
            if not (isinstance(y, torch.Tensor) and x.dtype == y.dtype and x.shape == y.shape
                    and x.contiguous().view(torch.uint8).tolist() == y.contiguous().view(torch.uint8).tolist()):
                return False
        elif x != y or type(x) is not type(y):
            return False
    return True


def rand_workload(rng: random.Random, W: int, max_writes: int = 3) -> Dict[str, Any]:
    spec = {"tensors": [[rng.choice([1, 2, 5, 8]) for _ in range(rng.randint(1, max_writes))] for _ in range(W)],
            "seed": rng.randrange(1000), "nobatch": rng.random() < 0.8}
    # scheduling knobs: a small I/O concurrency leaves a backlog of staged buffers for PendingIOWork.complete(); a small
    # memory budget makes staging proceed in waves, so writes complete (or fail) while the rank is still staging
    if rng.random() < 0.35:
        spec["conc"] = rng.choice([1, 1, 2])
    if rng.random() < 0.25:
        spec["budget"] = rng.choice([24, 40, 70])
    return spec


# --------------------------------------------------------------------------------------------------
# scenarios
# --------------------------------------------------------------------------------------------------

def _msg(e) -> str:
    return (type(e).__name__ + ": " + str(e)).replace("\n", " ")[-160:]


def sync_fn(path: str, spec, fresh_read=True):
    def fn(rank, pg, ds):
        from torchsnapshot import Snapshot
        try:
            Snapshot.take(path, make_state(spec, rank), pg=pg)
        except detsim.SimAbort:
            raise
        except Exception as e:  # noqa
            ds.log({"ev": "returnRaise", "msg": _msg(e)})
            return "raise"
        ds.log({"ev": "returnOk"})
        if fresh_read:
            try:
                Snapshot(path, pg=pg).metadata
                ds.log({"ev": "freshReadOk"})
            except detsim.SimAbort:
                raise
            except Exception as e:  # noqa
                ds.log({"ev": "freshReadFail", "msg": _msg(e)})
        return "ok"
    return fn


def async_fn(path: str, spec, fresh_read=True):
    def fn(rank, pg, ds):
        from torchsnapshot import Snapshot
        try:
            pending = Snapshot.async_take(path, make_state(spec, rank), pg=pg)
        except detsim.SimAbort:
            raise
        except Exception as e:  # noqa
            ds.log({"ev": "asyncTakeRaise", "msg": _msg(e)})
            return "raise-foreground"
        ds.log({"ev": "asyncTakeReturn"})
        try:
            pending.wait()
        except detsim.SimAbort:
            raise
        except Exception as e:  # noqa
            ds.log({"ev": "waitRaise", "msg": _msg(e)})
            return "raise"
        ds.log({"ev": "waitOk"})
        if fresh_read:
            try:
                Snapshot(path, pg=pg).metadata
                ds.log({"ev": "freshReadOk"})
            except detsim.SimAbort:
                raise
            except Exception as e:  # noqa
                ds.log({"ev": "freshReadFail", "msg": _msg(e)})
        return "ok"
    return fn


class PriorityChooser:
    """Adversarial schedules: always release a gate of the highest-priority rank that has one
    (`order` = ranks from most to least eager); ties broken by the sorted gate key."""

    def __init__(self, order: List[int]):
        self.pos = {r: i for i, r in enumerate(order)}

    def choose(self, enabled, sim) -> int:
        best = min(range(len(enabled)), key=lambda i: (self.pos.get(enabled[i].key[0], 99), i))
        return best


def make_chooser(desc: Dict[str, Any]):
    """desc: {"kind":"seed","seed":s} | {"kind":"prio","order":[...]} | {"kind":"prefix","prefix":[...]}
    | {"kind":"keys","keys":[...]}"""
    k = desc["kind"]
    if k == "seed":
        return detsim.RandomChooser(desc["seed"])
    if k == "prio":
        return PriorityChooser(desc["order"])
    if k == "prefix":
        return detsim.PrefixChooser(desc["prefix"], seed=desc.get("seed"))
    if k == "keys":
        return detsim.KeyChooser(desc["keys"], seed=desc.get("seed", 0))
    raise ValueError(k)


def run_round(job: detsim.Job, mode: str, path: str, spec, chooser_desc, faults=(), fresh_read=True,
              boring_first=False) -> detsim.RunResult:
    fn = (sync_fn if mode == "sync" else async_fn)(path, spec, fresh_read)
    with _sim.knobs(nobatch=bool(spec.get("nobatch", True)), budget=spec.get("budget"), conc=spec.get("conc")):
        return job.run(fn, chooser=make_chooser(chooser_desc), faults=faults, boring_first=boring_first)


def delete_snapshot(job: detsim.Job, path: str):
    pre = os.path.normpath(path).rstrip("/") + "/"
    for k in [k for k in job.files if k.startswith(pre)]:
        del job.files[k]


# --------------------------------------------------------------------------------------------------
# history -> model events
# --------------------------------------------------------------------------------------------------

class PrefixIds:
    """Barrier prefix string -> small id, by first appearance in the job."""

    def __init__(self):
        self.ids: Dict[str, int] = {}

    def get(self, s: str) -> int:
        return self.ids.setdefault(s, len(self.ids))


def outcomes(history, W: int, mode: str) -> List[str]:
    ok, bad = ("returnOk", "returnRaise") if mode == "sync" else ("waitOk", "waitRaise")
    out = ["blocked"] * W
    for e in history:
        if e["ev"] == ok:
            out[e["rank"]] = "ok"
        elif e["ev"] == bad:
            out[e["rank"]] = "raise"
        elif e["ev"] == "asyncTakeRaise":
            out[e["rank"]] = "raise-foreground"
    return out


def translate_async(history, W: int, pids: PrefixIds) -> Dict[str, Any]:
    """One async_take attempt -> {"n","pfx","nw","pfail","mfail","events", "problems", "foreground"}."""
    evs: List[Dict[str, Any]] = []
    problems: List[str] = []
    nw = [0] * W
    pfail: List[List[int]] = []
    mfail = False
    pfx: Optional[int] = None
    foreground = False
    for e in history:
        k, r = e["ev"], e.get("rank")
        if k in SKIP:
            continue
        if k in ("wBegin", "wEnd", "wFail"):
            if e["kind"] == "meta":
                if r != 0:
                    problems.append(f"metadata written by rank {r}")
                evs.append({"e": {"wBegin": "mBegin", "wEnd": "mEnd", "wFail": "mFail"}[k], "hi": e["i"]})
                if k == "wFail":
                    mfail = True
            else:
                nw[r] = max(nw[r], e["w"] + 1)
                evs.append({"e": k, "r": r, "w": e["w"], "hi": e["i"]})
                if k == "wFail":
                    pfail.append([r, e["w"]])
        elif k in ("ioComplete", "ioFail", "waitOk", "waitRaise"):
            evs.append({"e": k, "r": r, "hi": e["i"]})
        elif k in ("set", "get"):
            p = pids.get(e["prefix"])
            if pfx is None:
                pfx = p
            evs.append({"e": k, "r": r, "k": e["krank"], "p": p, "v": "err" if e["err"] else "empty", "hi": e["i"]})
        elif k == "wait":
            ps = [pids.get(x) for x in e["prefixes"]]
            if len(ps) > 1:
                problems.append(f"store.wait on keys of several prefixes: {e['prefixes']}")
            p = ps[0] if ps else (pfx if pfx is not None else 0)
            if pfx is None and ps:
                pfx = p
            evs.append({"e": "wait", "r": r, "keys": e["kranks"], "p": p, "hi": e["i"]})
        elif k == "asyncTakeRaise":
            foreground = True
        elif k in ("returnOk", "returnRaise"):
            problems.append(f"unexpected event {k}")
        else:
            problems.append(f"unknown event {k}")
    if pfx is None:
        # the attempt never touched the store (it failed during foreground staging): it has no barrier prefix at all,
        # so it cannot share one with another attempt; give it a name of its own
        pfx = pids.get(f"<no-store-op #{len(pids.ids)}>")
    return {"n": W, "pfx": pfx, "nw": nw, "pfail": pfail, "mfail": mfail, "events": evs, "problems": problems,
            "foreground": foreground}


def translate_sync(history, W: int) -> Dict[str, Any]:
    evs: List[Dict[str, Any]] = []
    problems: List[str] = []
    nw = [0] * W
    pfail: List[List[int]] = []
    mfail = False
    ncoll = [None] * W          # None = sync_complete not returned yet; else number of collectives entered since
    for e in history:
        k, r = e["ev"], e.get("rank")
        if k in ("wBegin", "wEnd", "wFail"):
            if e["kind"] == "meta":
                if r != 0:
                    problems.append(f"metadata written by rank {r}")
                evs.append({"e": {"wBegin": "mBegin", "wEnd": "mEnd", "wFail": "mFail"}[k], "hi": e["i"]})
                mfail = mfail or k == "wFail"
            else:
                nw[r] = max(nw[r], e["w"] + 1)
                evs.append({"e": k, "r": r, "w": e["w"], "hi": e["i"]})
                if k == "wFail":
                    pfail.append([r, e["w"]])
        elif k == "ioComplete":
            ncoll[r] = 0
            evs.append({"e": "ioComplete", "r": r, "hi": e["i"]})
        elif k == "collEnter" and ncoll[r] is not None:
            ncoll[r] += 1
            if e["op"] != "barrier":
                problems.append(f"rank {r}: collective {e['op']} after sync_complete")
            if ncoll[r] == 2:
                evs.append({"e": "enter2", "r": r, "hi": e["i"]})
            elif ncoll[r] > 2:
                problems.append(f"rank {r}: more than two collectives after sync_complete")
        elif k == "coll" and ncoll[r] is not None:
            if ncoll[r] == 1:
                evs.append({"e": "leave1", "r": r, "hi": e["i"]})
        elif k in ("returnOk", "returnRaise"):
            evs.append({"e": k, "r": r, "hi": e["i"]})
        elif k in ("set", "get", "wait", "waitOk", "waitRaise"):
            problems.append(f"unexpected event {k} in Snapshot.take")
    return {"n": W, "pfx": 0, "nw": nw, "pfail": pfail, "mfail": mfail, "events": evs, "problems": problems}


def _strip(rd):
    return {k: v for k, v in rd.items() if k not in ("problems", "foreground")}


def model_replay_async(driver, rounds: List[Dict[str, Any]]):
    return driver.call({"op": "commit_async", "rounds": [_strip(r) for r in rounds]})["rounds"]


def model_replay_sync(driver, rd: Dict[str, Any]):
    q = dict(_strip(rd))
    q["op"] = "commit_sync"
    return driver.call(q)


def correspondence_verdict(rd: Dict[str, Any], rep: Dict[str, Any], real_outcomes: List[str],
                           deadlocked: bool) -> Optional[str]:
    """None if the observed history is a behaviour of the model; else what differs."""
    if rd["problems"]:
        return "untranslatable: " + "; ".join(rd["problems"][:3])
    if rep.get("rejected"):
        rj = rep["rejected"]
        return (f"event #{rj['index']} {rj['observed']} is not a step of the model "
                f"({rj.get('why')}; model: {rj.get('model')})")
    # final state: every rank's outcome, and no control step left enabled in the model
    mo = rep["outcomes"]
    for r, (a, b) in enumerate(zip(real_outcomes, mo)):
        if a in ("ok", "raise"):
            if a != b:
                return f"rank {r}: implementation ended with {a}, model is at {b}"
        elif b in ("ok", "raise"):
            return f"rank {r}: implementation is {a}, model ended with {b}"
    stuck_ranks = {r for r, o in enumerate(mo) if o not in ("ok", "raise")}
    live = [l for l in rep["enabled"] if l["a"] == "ctl" or l["r"] in stuck_ranks]
    if live:
        return (f"at the final quiescent state the model still has enabled steps {live[:4]} "
                f"(implementation {'deadlocked' if deadlocked else 'finished'})")
    return None


# --------------------------------------------------------------------------------------------------
# oracles on the real history (independent of the model)
# --------------------------------------------------------------------------------------------------

def first_index(history, pred) -> Optional[int]:
    for e in history:
        if pred(e):
            return e["i"]
    return None


def is_meta(e, k):
    return e["ev"] == k and e.get("kind") == "meta"


def oracle_commit_order(history, W: int) -> List[Tuple[str, str]]:
    """C02/C13 ordering facts on one attempt. Returns [(signature, text)]."""
    out = []
    mb = first_index(history, lambda e: is_meta(e, "wBegin"))
    me = first_index(history, lambda e: is_meta(e, "wEnd"))
    if mb is not None:
        for e in history:
            if e["ev"] in ("wEnd", "wBegin", "wFail") and e.get("kind") == "payload" and e["i"] > mb:
                out.append(("metadata-before-payload",
                            f"metadata write began (event {mb}) before payload {e['ev']} of rank {e['rank']} write {e['w']} (event {e['i']})"))
                break
        begun = {(e["rank"], e["w"]) for e in history if e["ev"] == "wBegin" and e.get("kind") == "payload"}
        ended = {(e["rank"], e["w"]) for e in history if e["ev"] == "wEnd" and e.get("kind") == "payload" and e["i"] < mb}
        if begun - ended and not out:
            out.append(("metadata-before-payload", f"metadata write began while payload writes {sorted(begun - ended)} had not completed"))
        ioc = {e["rank"]: e["i"] for e in history if e["ev"] == "ioComplete"}
        late = [r for r in range(W) if r not in ioc or ioc[r] > mb]
        if late:
            out.append(("commit-before-io-complete", f"metadata write began (event {mb}) before sync_complete returned on rank(s) {late}"))
    for e in history:
        if e["ev"] in ("waitOk", "returnOk") and (me is None or me > e["i"]):
            out.append(("success-before-commit", f"rank {e['rank']} reported success (event {e['i']}) before the metadata write returned"))
            break
    for e in history:
        if e["ev"] == "freshReadFail":
            out.append(("fresh-reference-unreadable", f"rank {e['rank']}: Snapshot(path).metadata raised right after success: {e.get('msg')}"))
            break
    return out


def oracle_faults(history, W: int, mode: str, deadlock, files, path: str, injected: bool) -> List[Tuple[str, str]]:
    """C03/C13: who raised, nothing committed, nobody reported success."""
    out = []
    outs = outcomes(history, W, mode)
    pay_fail = [e for e in history if e["ev"] == "wFail" and e.get("kind") == "payload"]
    meta_fail = [e for e in history if e["ev"] == "wFail" and e.get("kind") == "meta"]
    failed = bool(pay_fail or meta_fail)
    meta_path = os.path.normpath(os.path.join(path, detsim.METADATA_FNAME))
    if failed:
        if any(o == "ok" for o in outs):
            out.append(("success-after-failure", f"ranks {[r for r, o in enumerate(outs) if o == 'ok']} reported success although a write failed"))
        if pay_fail and any(e["ev"] == "wBegin" and e.get("kind") == "meta" for e in history):
            out.append(("metadata-after-payload-fault", "metadata write was begun although a payload write failed"))
        if meta_path in files:
            out.append(("committed-after-failure", "metadata object present in storage after a failed attempt"))
        if mode == "sync":
            for e in pay_fail + meta_fail:
                if outs[e["rank"]] != "raise":
                    out.append(("fault-not-reported", f"sync take: write of rank {e['rank']} failed but take did not raise there ({outs[e['rank']]})"))
        else:
            if any(o == "raise-foreground" for o in outs):
                pass   # outside the model: reported by async_take itself; peers wait for the barrier timeout
            else:
                notr = [r for r, o in enumerate(outs) if o != "raise"]
                if notr:
                    out.append(("fault-not-reported", f"async: a write failed but wait() did not raise on ranks {notr} ({[outs[r] for r in notr]})"))
    else:
        if mode == "async" and deadlock:
            out.append(("deadlock", f"async attempt without failure deadlocked: {deadlock}"))
        bad = [r for r, o in enumerate(outs) if o == "raise"]
        if bad and not injected:
            out.append(("spurious-failure", f"no write failed but ranks {bad} raised"))
        if mode == "sync" and deadlock and not injected:
            out.append(("deadlock", f"fault-free take deadlocked: {deadlock}"))
        if not deadlock and not bad and all(o == "ok" for o in outs) and meta_path not in files:
            out.append(("success-without-metadata", "every rank reported success but no metadata object exists"))
    if mode == "async" and failed and deadlock and not any(o == "raise-foreground" for o in outs):
        out.append(("deadlock", f"async attempt with a failure deadlocked instead of raising: {deadlock}"))
    return out


# --------------------------------------------------------------------------------------------------
# crash cuts on the real storage history
# --------------------------------------------------------------------------------------------------

def materialise_cut(history, blobs, cut: int, rng: random.Random, base_files: Dict[str, bytes],
                    force_meta: Optional[str] = None) -> Tuple[Dict[str, bytes], Dict[str, Any]]:
    """Storage contents if every process is killed right after history event `cut` (inclusive)."""
    files = dict(base_files)
    info = {"cut": cut, "inflight": []}
    begun, ended = {}, {}
    for e in history:
        if e["i"] > cut:
            break
        if e["ev"] == "wBegin":
            begun[(e["rank"], e["w"])] = e
        elif e["ev"] in ("wEnd",):
            ended[(e["rank"], e["w"])] = e
    for key, e in begun.items():
        data = blobs[key]
        if key in ended:
            files[e["path"]] = data
            continue
        mode = rng.choice(["absent", "torn", "complete"])
        if force_meta and e["kind"] == "meta":
            mode = force_meta
        if mode == "torn":
            k = rng.randrange(0, len(data)) if len(data) > 0 else 0          # strict prefix
            files[e["path"]] = data[:k]
            info["inflight"].append([e["kind"], e["rank"], e["w"], f"torn@{k}/{len(data)}"])
        elif mode == "complete":
            files[e["path"]] = data
            info["inflight"].append([e["kind"], e["rank"], e["w"], "complete"])
        else:
            files.pop(e["path"], None)
            info["inflight"].append([e["kind"], e["rank"], e["w"], "absent"])
    return files, info


def open_and_restore(files: Dict[str, bytes], path: str, W: int, spec) -> Dict[str, Any]:
    """Real `Snapshot(path).metadata` then `restore` on W ranks over the given storage contents
    (thread-based simulator, ungated). -> {"open": "ok"|"raise:...", "restore": [...per rank...]}"""
    from torchsnapshot import Snapshot
    world = _sim.World(W)
    world.storage.files = dict(files)
    res: Dict[str, Any] = {}
    try:
        world.run1(lambda: Snapshot(path).metadata) if W == 1 else _open_multi(world, path)
        res["open"] = "ok"
    except Exception as e:  # noqa
        res["open"] = "raise:" + type(e).__name__
        return res

    def fn(rank, pg):
        st = zero_state(spec, rank)
        Snapshot(path, pg=pg).restore(st)
        return state_equal(st, make_state(spec, rank))

    with _sim.knobs(nobatch=bool(spec.get("nobatch", True))):
        if W == 1:
            try:
                rr = [("ok", world.run1(lambda: fn(0, None)))]
            except Exception as e:  # noqa
                rr = [("exc", e)]
        else:
            rr = world.run(fn)
    res["restore"] = [("equal" if v is True else "DIFFERENT") if k == "ok" else "raise:" + _msg(v) for k, v in rr]
    return res


def _open_multi(world, path):
    from torchsnapshot import Snapshot
    r = world.run(lambda rank, pg: Snapshot(path, pg=pg).metadata, ranks=[0])
    if r[0][0] != "ok":
        raise r[0][1]


# --------------------------------------------------------------------------------------------------
# one case = one job, a list of rounds; correspondence + oracles
# --------------------------------------------------------------------------------------------------

def compact(history) -> List[str]:
    out = []
    for e in history:
        k, r = e["ev"], e.get("rank")
        if k in ("coll", "collEnter", "threadStart", "ioEnter", "read"):
            continue
        if k in ("wBegin", "wEnd", "wFail"):
            out.append(f"r{r}:{'m' if e['kind'] == 'meta' else 'w' + str(e['w'])}{k[1:]}")
        elif k == "set":
            out.append(f"r{r}:set(k{e['krank']},{'err' if e['err'] else 'empty'})")
        elif k == "get":
            out.append(f"r{r}:get(k{e['krank']})={'err' if e.get('err') else 'empty'}")
        elif k == "wait":
            out.append(f"r{r}:wait{e['kranks']}")
        else:
            out.append(f"r{r}:{k}")
    return out


def run_case(ctx, case: Dict[str, Any], suite: str, cuts: int = 0, cut_rng: Optional[random.Random] = None,
             quiet: bool = False) -> Dict[str, Any]:
    """Runs the rounds of `case` in one Job on the real code, replays them in the model, evaluates the
    oracles. Reports through ctx (disagree / fail / count) unless quiet. Returns a summary."""
    W = case["W"]
    job = detsim.Job(W)
    pids = PrefixIds()
    summary: Dict[str, Any] = {"rounds": [], "failures": [], "disagreements": []}
    async_models, async_meta = [], []
    replay_case = {"W": W, "rounds": []}

    def fail(sig, text, ri, hist):
        summary["failures"].append((sig, text, ri))
        if not quiet:
            ctx.fail(sig, text, replay_case, {"round": ri, "history": compact(hist)[-60:]}, suite=suite)

    def disagree(text, ri, hist, model):
        summary["disagreements"].append((text, ri))
        if not quiet:
            ctx.disagree(suite, replay_case, {"round": ri, "what": text, "history": compact(hist)[-60:]}, model)

    for ri, rd in enumerate(case["rounds"]):
        meta_path = os.path.normpath(os.path.join(rd["path"], detsim.METADATA_FNAME))
        if rd.get("delete_before") or meta_path in job.files:
            # the API forbids taking onto an existing snapshot: an earlier committed one is deleted first
            delete_snapshot(job, rd["path"])
        base_files = dict(job.files)
        res = run_round(job, rd["mode"], rd["path"], rd["spec"], rd["chooser"], faults=rd.get("faults", ()),
                        fresh_read=rd.get("fresh_read", True), boring_first=rd.get("boring_first", False))
        hist = res.history
        replay_case["rounds"].append(dict(rd, observed_keys=[list(c[2]) for c in res.choices]))
        outs = outcomes(hist, W, rd["mode"])
        injected = bool(rd.get("faults"))
        rsum = {"mode": rd["mode"], "outcomes": outs, "deadlock": bool(res.deadlock), "steps": len(res.choices),
                "n_events": len(hist), "choices": res.choices, "result": res, "base_files": base_files}
        summary["rounds"].append(rsum)
        # ---- oracles on the real history
        for sig, text in oracle_commit_order(hist, W):
            fail(sig, text, ri, hist)
        for sig, text in oracle_faults(hist, W, rd["mode"], res.deadlock, job.files, rd["path"], injected):
            fail(sig, text, ri, hist)
        # ---- after a faulty attempt: whatever became visible must still be complete (nothing, or a full snapshot)
        if injected and not res.deadlock:
            r = open_and_restore(dict(job.files), rd["path"], W, rd["spec"])
            if r["open"] == "ok":
                bad = [x for x in r.get("restore", []) if x != "equal"]
                if bad:
                    summary["failures"].append(("committed-but-incomplete", "after fault", ri))
                    if not quiet:
                        ctx.fail("committed-but-incomplete",
                                 f"a storage write failed, yet readable metadata was committed and restore is not exact: {bad[:2]}",
                                 replay_case, {"round": ri, "faults": rd.get("faults"), "restore": r["restore"],
                                               "history": compact(hist)[-40:]}, suite=suite)
        # ---- crash cuts (fault-free attempts only: the cut store is compared with the saved state)
        if cuts and not injected:
            rng = cut_rng or random.Random(0)
            storage_idx = [e["i"] for e in hist if e["ev"] in ("wBegin", "wEnd")]
            if storage_idx:
                lo, hi = storage_idx[0] - 1, storage_idx[-1]
                picks = {hi, lo} | {rng.randint(lo, hi) for _ in range(cuts)}
                # always include the instants around the metadata write
                mb = first_index(hist, lambda e: is_meta(e, "wBegin"))
                if mb is not None:
                    picks |= {mb - 1, mb}
                plan = [(c, None) for c in sorted(picks)]
                if mb is not None:      # metadata write in flight: all three fates
                    plan += [(mb, "torn"), (mb, "complete"), (mb, "absent")]
                for cut, force in plan:
                    files, info = materialise_cut(hist, res.blobs, cut, rng, base_files, force_meta=force)
                    r = open_and_restore(files, rd["path"], W, rd["spec"])
                    rsum.setdefault("cuts", []).append((cut, r["open"]))
                    if not quiet:
                        ctx.count("cut.open." + ("ok" if r["open"] == "ok" else "raise"))
                    if r["open"] == "ok":
                        bad = [x for x in r["restore"] if x != "equal"]
                        if bad:
                            summary["failures"].append(("cut-readable-but-incomplete", str(info), ri))
                            if not quiet:
                                ctx.fail("cut-readable-but-incomplete",
                                         f"crash after event {cut}: metadata readable but restore is not exact: {bad[:2]}",
                                         replay_case, {"round": ri, "cut": info, "restore": r["restore"],
                                                       "history": compact([e for e in hist if e['i'] <= cut])[-40:]}, suite=suite)
        # ---- model
        if rd["mode"] == "async":
            m = translate_async(hist, W, pids)
            async_models.append(m)
            async_meta.append((ri, hist, outs, bool(res.deadlock)))
        else:
            m = translate_sync(hist, W)
            if ctx.driver:
                rep = model_replay_sync(ctx.driver, m)
                v = correspondence_verdict(m, rep, outs, bool(res.deadlock))
                if v:
                    disagree(v, ri, hist, {k: rep.get(k) for k in ("accepted", "total", "rejected", "outcomes", "enabled")})
                rsum["model"] = rep
    if async_models:
        pf = [m["pfx"] for m in async_models]
        if len(set(pf)) != len(pf):
            disagree(f"barrier prefixes are reused across attempts ({pf}): hypothesis of C13_histories no longer holds",
                     len(pf) - 1, async_meta[-1][1], None)
        usable = [not m["foreground"] for m in async_models]
        if ctx.driver and all(usable):
            reps = model_replay_async(ctx.driver, async_models)
            for (ri, hist, outs, dl), m, rep in zip(async_meta, async_models, reps):
                v = correspondence_verdict(m, rep, outs, dl)
                if v:
                    disagree(v, ri, hist, {k: rep.get(k) for k in ("accepted", "total", "rejected", "outcomes", "enabled")})
                summary["rounds"][ri]["model"] = rep
        elif not all(usable) and not quiet:
            ctx.count("async.foreground_fault_outside_model")
    summary["replay_case"] = replay_case
    return summary
