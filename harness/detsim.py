"""Deterministic multi-rank simulation of torchsnapshot's commit path.

The REAL `Snapshot.take` / `Snapshot.async_take` (+ `PendingSnapshot` background threads) run
unmodified, one thread per rank, over

  * a gated in-memory storage plugin   (every write: begin gate + end gate; reads: one gate),
  * a gated fake process group          (every collective: enabled once all ranks have entered),
  * a gated fake key-value store        (set / get / wait),

and a central scheduler that waits for *global quiescence* (no thread running, no released-but-not-
yet-resumed coroutine) and then releases exactly ONE enabled gate, chosen by a seeded PRNG, by an
explicit schedule (replay) or by a DFS driver.  The output is the linearised history: the released
gates in order, interleaved with the un-gated control events logged by the rank threads
(`ioComplete`, `ioFail`, `waitOk`, `returnOk`, ...).  With one thread running at a time the history
is a deterministic function of (workload, fault plan, choices).

A state with unfinished threads and no enabled gate is a deadlock; it is detected structurally, not
by a wall-clock timeout.  (`HARNESS_TIMEOUT_S` only guards against a bug in this file: hitting it is
a harness fault, never a verdict.)

Monkey-patch points are those of `harness/sim.py` (PGWrapper methods, `storage_plugin.url_to_
storage_plugin`, `dist_store.get_or_create_store`) plus: `torchsnapshot.snapshot.Thread`,
`torchsnapshot.scheduler.ThreadPoolExecutor` (inline while a simulation is active), the asyncio event
loop policy (while a simulation is active) and a logging wrapper around
`PendingIOWork.sync_complete`.  Nothing in /repo is edited.
"""
from __future__ import annotations

import asyncio
import concurrent.futures
import io
import os
import pickle
import random
import threading
from typing import Any, Callable, Dict, List, Optional, Tuple

import sim as _sim

HARNESS_TIMEOUT_S = float(os.environ.get("VERIF_DETSIM_TIMEOUT_S", "300"))
METADATA_FNAME = ".snapshot_metadata"


class SimAbort(BaseException):
    """Raised inside blocked threads when a run is torn down (deadlock / end of run)."""


class HarnessFault(RuntimeError):
    pass


class InjectedTimeout(TimeoutError):
    """a failure whose str() is empty"""


class InjectedFault(OSError):
    pass


class Mismatch(Exception):
    pass


_ACTIVE: Dict[str, Any] = {"sim": None}
_INSTALLED = {"done": False}


def _cur_sim() -> Optional["DetSim"]:
    s = _ACTIVE["sim"]
    if s is not None and threading.current_thread() in s.state:
        return s
    return None


# --------------------------------------------------------------------------------------------------
# choosers
# --------------------------------------------------------------------------------------------------

class RandomChooser:
    def __init__(self, seed):
        self.rng = random.Random(seed)

    def choose(self, enabled: List["Gate"], sim: "DetSim") -> int:
        return self.rng.randrange(len(enabled))


class PrefixChooser:
    """Follow a list of indices into the sorted enabled set, then a fallback (index 0 or a PRNG)."""

    def __init__(self, prefix: List[int], seed=None):
        self.prefix = list(prefix)
        self.k = 0
        self.rng = random.Random(seed) if seed is not None else None

    def choose(self, enabled, sim) -> int:
        if self.k < len(self.prefix):
            i = self.prefix[self.k]
            self.k += 1
            if i >= len(enabled):
                raise HarnessFault(f"replay diverged at choice {self.k - 1}: index {i} of {len(enabled)} enabled")
            return i
        self.k += 1
        return self.rng.randrange(len(enabled)) if self.rng else 0


class KeyChooser:
    """Replay by gate keys (robust to changes in the number of enabled gates)."""

    def __init__(self, keys: List[Tuple], seed=0):
        self.keys = [tuple(k) for k in keys]
        self.k = 0
        self.rng = random.Random(seed)

    def choose(self, enabled, sim) -> int:
        if self.k < len(self.keys):
            want = self.keys[self.k]
            self.k += 1
            for i, g in enumerate(enabled):
                if tuple(g.key) == want:
                    return i
            raise HarnessFault(f"replay diverged at choice {self.k - 1}: gate {want} not enabled "
                               f"(enabled: {[g.key for g in enabled]})")
        self.k += 1
        return self.rng.randrange(len(enabled))


# --------------------------------------------------------------------------------------------------
# the scheduler
# --------------------------------------------------------------------------------------------------

class Gate:
    __slots__ = ("key", "ev", "enabled", "release", "abort", "loop", "boring")

    def __init__(self, key, ev, enabled, release, abort, loop=None, boring=False):
        self.key, self.ev, self.enabled, self.release, self.abort, self.loop, self.boring = \
            key, ev, enabled, release, abort, loop, boring


class DetSim:
    def __init__(self, job: "Job", chooser, boring_first: bool = False):
        self.job = job
        self.chooser = chooser
        self.boring_first = boring_first
        self.cv = threading.Condition()
        self.state: Dict[threading.Thread, str] = {}      # 'run' | 'blocked' | 'idle' | 'done'
        self.rank_of: Dict[threading.Thread, int] = {}
        self.joiners: Dict[threading.Thread, List[threading.Thread]] = {}
        self.gates: List[Gate] = []
        self.inflight = 0
        self.history: List[Dict[str, Any]] = []
        self.choices: List[Tuple[int, int, Tuple]] = []    # (index chosen, number enabled, key)
        self.counters: Dict[Tuple, int] = {}
        self.phase: Dict[int, str] = {}                    # rank -> 'pre' | 'io' (sync_complete entered)
        self.blobs: Dict[Tuple[int, int], bytes] = {}      # (rank, write id) -> data
        self.write_count: Dict[int, int] = {}
        self.aborting = False
        self.deadlock: Optional[Dict[str, Any]] = None

    # ---- bookkeeping (all under cv) ----------------------------------------------------------
    def register(self, th, rank, st="run"):
        with self.cv:
            self.state[th] = st
            self.rank_of[th] = rank
            self.cv.notify_all()

    def set_state(self, st, th=None):
        th = th or threading.current_thread()
        with self.cv:
            self.state[th] = st
            if st == "done":
                for j in self.joiners.pop(th, []):
                    if self.state.get(j) == "blocked":
                        self.state[j] = "run"
            self.cv.notify_all()

    def rank(self) -> int:
        return self.rank_of.get(threading.current_thread(), 0)

    def next_id(self, *key) -> int:
        with self.cv:
            n = self.counters.get(key, 0)
            self.counters[key] = n + 1
            return n

    def log(self, ev: Dict[str, Any]):
        """Un-gated control event of the calling thread."""
        ev = dict(ev)
        ev.setdefault("rank", self.rank())
        with self.cv:
            if self.aborting:           # threads being torn down must not extend the history
                return
            ev["i"] = len(self.history)
            self.history.append(ev)

    # ---- gates -----------------------------------------------------------------------------------
    def _boring(self, ev) -> bool:
        return ev["ev"] in ("coll", "threadStart") and self.phase.get(ev.get("rank"), "pre") == "pre"

    def sync_gate(self, key, ev, enabled=lambda: True):
        th = threading.current_thread()
        done = threading.Event()
        box = {"abort": False}

        def release():
            self.state[th] = "run"       # called by the scheduler with cv held
            done.set()

        def abort():
            box["abort"] = True
            done.set()

        g = Gate(key, ev, enabled, release, abort, boring=self._boring(ev))
        with self.cv:
            if self.aborting:
                raise SimAbort()
            self.gates.append(g)
            self.state[th] = "blocked"
            self.cv.notify_all()
        done.wait()
        if box["abort"]:
            raise SimAbort()

    async def async_gate(self, key, ev, enabled=lambda: True):
        loop = asyncio.get_running_loop()
        fut = loop.create_future()

        def release():
            self.inflight += 1           # scheduler holds cv
            loop.call_soon_threadsafe(_set_result, fut)

        def abort():
            try:
                loop.call_soon_threadsafe(_set_exc, fut)
            except RuntimeError:
                pass

        g = Gate(key, ev, enabled, release, abort, loop=loop)
        with self.cv:
            if self.aborting:
                raise SimAbort()
            self.gates.append(g)
            self.cv.notify_all()
        resumed = False
        try:
            await fut
            resumed = True
        except SimAbort:
            resumed = True
            raise
        finally:
            # (a coroutine destroyed with its closed loop gets GeneratorExit here, in whatever thread
            #  runs the GC: then only the gate is withdrawn)
            with self.cv:
                if g in self.gates:
                    self.gates.remove(g)
                elif resumed and not self.aborting:
                    self.inflight -= 1
                th = threading.current_thread()
                if resumed and th in self.state:
                    self.state[th] = "run"
                self.cv.notify_all()

    # ---- main loop (runs in the caller of Job.run) ------------------------------------------------
    def _quiescent(self):
        return self.inflight == 0 and all(s != "run" for s in self.state.values())

    def _gate_ok(self, g: Gate) -> bool:
        if g.loop is not None and (g.loop.is_closed() or not g.loop.is_running()):
            return False
        return bool(g.enabled())

    def loop(self, max_steps=100000):
        for _ in range(max_steps):
            with self.cv:
                if not self.cv.wait_for(self._quiescent, timeout=HARNESS_TIMEOUT_S):
                    raise HarnessFault("simulation not quiescent: " + repr(
                        {t.name: s for t, s in self.state.items()}) + f" inflight={self.inflight} "
                        + repr([g.key for g in self.gates]) + " last=" + repr(self.history[-4:]))
                if all(s == "done" for s in self.state.values()):
                    return
                en = sorted((g for g in self.gates if self._gate_ok(g)), key=lambda g: g.key)
                if not en:
                    self.deadlock = {
                        "threads": {t.name: s for t, s in self.state.items() if s != "done"},
                        "pending": [list(g.key) for g in self.gates if g.loop is None],
                    }
                    return
                if self.boring_first and any(g.boring for g in en):
                    g = next(g for g in en if g.boring)
                else:
                    i = self.chooser.choose(en, self)
                    g = en[i]
                    self.choices.append((i, len(en), tuple(g.key)))
                self.gates.remove(g)
                ev = dict(g.ev)
                ev["i"] = len(self.history)
                ev["gate"] = True
                self.history.append(ev)
                g.release()
        raise HarnessFault("step bound reached")

    def teardown(self):
        """Wake every blocked thread with SimAbort; threads that cannot be woken are abandoned (daemon)."""
        with self.cv:
            self.aborting = True
            gs = list(self.gates)
            self.gates.clear()
            self.inflight = 0
            self.cv.notify_all()
        for g in gs:
            if g.loop is None or (not g.loop.is_closed() and g.loop.is_running()):
                try:
                    g.abort()
                except Exception:
                    pass
        with self.cv:
            self.cv.wait_for(lambda: all(s == "done" for s in self.state.values()), timeout=3.0)


def _set_result(fut):
    if not fut.done():
        fut.set_result(None)


def _set_exc(fut):
    if not fut.done():
        fut.set_exception(SimAbort())


# --------------------------------------------------------------------------------------------------
# environment pieces
# --------------------------------------------------------------------------------------------------

class IdleLoop(asyncio.SelectorEventLoop):
    """Reports 'idle' to the scheduler when about to block with nothing ready."""

    def _run_once(self):
        s = _ACTIVE["sim"]
        if s is not None and not self._ready and not self._scheduled:
            th = threading.current_thread()
            if th in s.state and s.state[th] == "run":
                s.set_state("idle", th)
        super()._run_once()


class _Policy(asyncio.DefaultEventLoopPolicy):
    def new_event_loop(self):
        return IdleLoop()


class InlineExecutor(concurrent.futures.Executor):
    def __init__(self, *a, **k):
        pass

    def submit(self, fn, *a, **k):
        f = concurrent.futures.Future()
        try:
            f.set_result(fn(*a, **k))
        except BaseException as e:  # noqa
            f.set_exception(e)
        return f

    def shutdown(self, *a, **k):
        pass


def _executor_factory(*a, **k):
    if _cur_sim() is not None:
        return InlineExecutor()
    return concurrent.futures.ThreadPoolExecutor(*a, **k)


class SimThread(threading.Thread):
    """Replacement for `threading.Thread` inside torchsnapshot.snapshot (PendingSnapshot's thread)."""

    def __init__(self, *a, **k):
        super().__init__(*a, **k)
        self._ds = _cur_sim()
        if self._ds is not None:
            self._ds_rank = self._ds.rank()
            self._ds_world = getattr(_sim._tls, "world", None)
            self.daemon = True
            self.name = f"rank{self._ds_rank}-bg{self._ds.next_id('bg', self._ds_rank)}"

    def start(self):
        if self._ds is not None:
            self._ds.register(self, self._ds_rank, "run")
        super().start()

    def run(self):
        ds = self._ds
        if ds is None:
            return super().run()
        _sim._tls.rank, _sim._tls.world = self._ds_rank, self._ds_world
        try:
            ds.sync_gate((self._ds_rank, "tstart", ds.next_id("tstart", self._ds_rank)),
                         {"ev": "threadStart", "rank": self._ds_rank})
            super().run()
        except SimAbort:
            pass
        finally:
            ds.set_state("done", self)

    def join(self, timeout=None):
        ds = self._ds
        me = threading.current_thread()
        if ds is not None and me in ds.state:
            with ds.cv:
                if timeout is not None and ds.state.get(self) != "done" and not ds.aborting:
                    # a join WITH a timeout may expire before the thread ends (the simulator has no clock: the adversary
                    # lets every timed join expire at once).  The unchanged tree joins without a timeout.
                    return
                if ds.state.get(self) != "done":
                    ds.joiners.setdefault(self, []).append(me)
                    ds.state[me] = "blocked"
                    ds.cv.notify_all()
                    ds.cv.wait_for(lambda: ds.state.get(self) == "done" or ds.aborting)
                    if ds.state.get(self) != "done" or ds.aborting:
                        ds.state[me] = "run"
                        raise SimAbort()
                elif ds.aborting:
                    raise SimAbort()
        super().join(timeout)


class GatedStore:
    """In-memory dist.Store shared by all ranks of a Job; keys persist for the Job's lifetime."""

    def __init__(self):
        self.d: Dict[str, bytes] = {}

    @staticmethod
    def _split(k: str):
        pre, _, r = k.rpartition("_")
        try:
            return pre, int(r)
        except ValueError:
            return k, -1

    def set(self, k, v):
        b = v.encode() if isinstance(v, str) else bytes(v)
        ds = _cur_sim()
        if ds is not None:
            r = ds.rank()
            pre, kr = self._split(k)
            ds.sync_gate((r, "store", ds.next_id("store", r)),
                         {"ev": "set", "rank": r, "key": k, "prefix": pre, "krank": kr, "err": len(b) != 0,
                          "val": b[:80].decode("utf-8", "replace")})
        self.d[k] = b

    def get(self, k):
        ds = _cur_sim()
        if ds is not None:
            r = ds.rank()
            pre, kr = self._split(k)
            ev = {"ev": "get", "rank": r, "key": k, "prefix": pre, "krank": kr}
            ds.sync_gate((r, "store", ds.next_id("store", r)), ev, enabled=lambda: k in self.d)
            # the value is read at release time: record it on the history entry
            with ds.cv:
                for h in reversed(ds.history):
                    if h.get("ev") == "get" and h.get("rank") == r and "err" not in h:
                        h["err"] = len(self.d[k]) != 0
                        break
        return self.d[k]

    def wait(self, keys, timeout=None):
        keys = list(keys)
        ds = _cur_sim()
        if ds is not None:
            r = ds.rank()
            sp = [self._split(k) for k in keys]
            ds.sync_gate((r, "store", ds.next_id("store", r)),
                         {"ev": "wait", "rank": r, "keys": keys, "prefixes": sorted({p for p, _ in sp}),
                          "kranks": [kr for _, kr in sp]},
                         enabled=lambda: all(k in self.d for k in keys))
        else:
            if not all(k in self.d for k in keys):
                raise RuntimeError("store.wait on absent keys outside a simulation")


class GatedHub:
    """Collectives: a rank's call blocks at a gate that is enabled once every rank has entered."""

    def __init__(self, world: int):
        self.world = world
        self.round: Dict[int, Dict[int, Tuple[str, bytes]]] = {}
        self.seq = [0] * world
        self.log: List[List[str]] = [[] for _ in range(world)]
        self.lock = threading.Lock()

    def collective(self, rank: int, op: str, payload: Any) -> Dict[int, Any]:
        with self.lock:
            seq = self.seq[rank]
            self.seq[rank] += 1
            self.log[rank].append(op)
            slot = self.round.setdefault(seq, {})
            slot[rank] = (op, pickle.dumps(payload))
        ds = _cur_sim()
        if ds is None:
            raise RuntimeError("GatedHub used outside a simulation")
        ds.log({"ev": "collEnter", "rank": rank, "op": op, "seq": seq})
        ds.sync_gate((rank, "coll", seq), {"ev": "coll", "rank": rank, "op": op, "seq": seq},
                     enabled=lambda: len(slot) == self.world)
        ops = {o for (o, _) in slot.values()}
        if len(ops) != 1:
            raise Mismatch(f"collective mismatch at #{seq}: {sorted((r, o) for r, (o, _) in slot.items())}")
        return {r: pickle.loads(p) for r, (o, p) in slot.items()}

    def rank_finished(self, rank: int):
        pass


class _GatedPluginBase:
    def __init__(self, root: str, job: "Job", rank: int):
        self.root, self.job, self.rank = root, job, rank

    def _abs(self, p: str) -> str:
        return os.path.normpath(os.path.join(self.root, p))

    async def write(self, write_io) -> None:
        job, r = self.job, self.rank
        p = self._abs(write_io.path)
        data = bytes(write_io.buf)
        kind = "meta" if os.path.basename(write_io.path) == METADATA_FNAME else "payload"
        ds = _cur_sim()
        if ds is None:
            job.files[p] = data
            return
        with ds.cv:
            wid = ds.write_count.get(r, 0)
            ds.write_count[r] = wid + 1
        faulty = (r, wid) in job.faults or (kind == "meta" and (r, "meta") in job.faults)
        ds.blobs[(r, wid)] = data
        base = {"rank": r, "w": wid, "kind": kind, "path": p, "raw": write_io.path, "len": len(data)}
        await ds.async_gate((r, "wBegin", wid), dict(base, ev="wBegin"))
        await ds.async_gate((r, "wEnd", wid), dict(base, ev="wFail" if faulty else "wEnd"))
        if faulty:
            # real plugins fail both ways: with a message, and with message-less exceptions (asyncio.TimeoutError(),
            # MemoryError(), a bare assert) whose str() is "" - error relaying must not depend on a non-empty text
            if (r + wid + len(data)) % 2 == 1:
                raise InjectedTimeout()
            raise InjectedFault(f"injected failure of write #{wid} on rank {r}")
        job.files[p] = data

    async def read(self, read_io) -> None:
        job, r = self.job, self.rank
        p = self._abs(read_io.path)
        ds = _cur_sim()
        if ds is not None:
            await ds.async_gate((r, "read", ds.next_id("read", r)), {"ev": "read", "rank": r, "path": p})
        data = job.files.get(p)
        if data is None:
            raise FileNotFoundError(p)
        if read_io.byte_range is None:
            out = data
        else:
            a, b = read_io.byte_range
            out = data[a:a + (b - a)] if b - a >= 0 else data[a:]
        read_io.buf = io.BytesIO(out)

    async def delete(self, path: str) -> None:
        del self.job.files[self._abs(path)]

    async def delete_dir(self, path: str) -> None:
        pre = self._abs(path).rstrip("/") + "/"
        for k in [k for k in self.job.files if k.startswith(pre)]:
            del self.job.files[k]

    async def close(self) -> None:
        pass


GatedPlugin = None


def install():
    """Idempotent. Builds on sim.install() (same patch points) and adds the scheduler hooks."""
    if _INSTALLED["done"]:
        return
    _sim.install()
    import torchsnapshot.scheduler as schedmod
    import torchsnapshot.snapshot as snapmod
    import torchsnapshot.storage_plugin as sp
    from torchsnapshot.io_types import StoragePlugin

    global GatedPlugin

    class GatedPlugin(_GatedPluginBase, StoragePlugin):  # type: ignore
        pass

    prev_factory = sp.url_to_storage_plugin

    def url_to_storage_plugin(url_path, storage_options=None):
        w = getattr(_sim._tls, "world", None)
        if isinstance(w, Job):
            return GatedPlugin(url_path, w, _sim.current_rank())
        return prev_factory(url_path, storage_options)

    sp.url_to_storage_plugin = url_to_storage_plugin
    snapmod.Thread = SimThread
    schedmod.ThreadPoolExecutor = _executor_factory

    PIW = schedmod.PendingIOWork
    orig_sync_complete = PIW.sync_complete

    def sync_complete(self, event_loop):
        ds = _cur_sim()
        if ds is None:
            return orig_sync_complete(self, event_loop)
        r = ds.rank()
        ds.phase[r] = "io"
        ds.log({"ev": "ioEnter", "rank": r})
        try:
            orig_sync_complete(self, event_loop)
        except SimAbort:
            raise
        except BaseException:
            ds.log({"ev": "ioFail", "rank": r})
            raise
        ds.log({"ev": "ioComplete", "rank": r})

    PIW.sync_complete = sync_complete
    _INSTALLED["done"] = True


# --------------------------------------------------------------------------------------------------
# a job = W ranks + storage + store, persistent across runs
# --------------------------------------------------------------------------------------------------

class RunResult:
    def __init__(self, history, results, deadlock, choices, blobs):
        self.history: List[Dict[str, Any]] = history
        self.results: List[Tuple[str, Any]] = results      # per rank ("ok", v) | ("exc", e) | ("blocked", None)
        self.deadlock: Optional[Dict[str, Any]] = deadlock
        self.choices: List[Tuple[int, int, Tuple]] = choices
        self.blobs: Dict[Tuple[int, int], bytes] = blobs

    def choice_indices(self) -> List[int]:
        return [c[0] for c in self.choices]

    def public_history(self) -> List[Dict[str, Any]]:
        """JSON-able history (byte strings dropped)."""
        return [{k: v for k, v in e.items() if not k.startswith("_")} for e in self.history]


class Job:
    """One simulated job. `files` (storage) and `kvstore` persist across runs, like a real job's
    filesystem and TCPStore."""

    def __init__(self, size: int):
        self.size = size
        self.files: Dict[str, bytes] = {}
        self.kvstore = GatedStore()
        self.hub = GatedHub(size)
        self.hostnames = None
        self.faults: set = set()
        # sim.World API used by sim.install()'s patched functions
        self.storage = None

    def pg(self, rank):
        return _sim.FakePG(self, rank)

    def run(self, fn: Callable[[int, Any, DetSim], Any], chooser=None, seed=0, faults=(),
            boring_first=False) -> RunResult:
        """Run fn(rank, pg, sim) on every rank under the deterministic scheduler.

        faults: iterable of (rank, n) — the n-th storage write issued by that rank in THIS run raises;
        (rank, "meta") — that rank's write of `.snapshot_metadata` raises."""
        install()
        if _ACTIVE["sim"] is not None:
            raise HarnessFault("nested simulation")
        self.faults = set(tuple(f) for f in faults)
        self.hub = GatedHub(self.size)
        ds = DetSim(self, chooser or RandomChooser(seed), boring_first=boring_first)
        results: List[Any] = [("blocked", None)] * self.size

        def target(r):
            _sim._tls.rank, _sim._tls.world = r, self
            try:
                ds.sync_gate((r, "tstart", ds.next_id("tstart", r)), {"ev": "threadStart", "rank": r, "main": True})
                results[r] = ("ok", fn(r, self.pg(r), ds))
            except SimAbort:
                pass
            except BaseException as e:  # noqa
                results[r] = ("exc", e)
            finally:
                ds.set_state("done")

        old_policy = asyncio.get_event_loop_policy()
        old_hook = threading.excepthook
        threading.excepthook = lambda args: None if issubclass(args.exc_type, SimAbort) else old_hook(args)
        asyncio.set_event_loop_policy(_Policy())
        _ACTIVE["sim"] = ds
        ths = []
        try:
            for r in range(self.size):
                t = threading.Thread(target=target, args=(r,), name=f"rank{r}", daemon=True)
                ds.register(t, r, "run")
                ths.append(t)
            for t in ths:
                t.start()
            ds.loop()
            with ds.cv:
                snapshot_results = list(results)
                history = list(ds.history)
                ds.aborting = True
        finally:
            try:
                ds.teardown()
            finally:
                _ACTIVE["sim"] = None
                asyncio.set_event_loop_policy(old_policy)
                threading.excepthook = old_hook
        return RunResult(history, snapshot_results, ds.deadlock, ds.choices, ds.blobs)


# --------------------------------------------------------------------------------------------------
# schedule exploration
# --------------------------------------------------------------------------------------------------

def dfs(run_with_prefix: Callable[[List[int]], RunResult], budget: int, rng: Optional[random.Random] = None,
        on_run: Optional[Callable[[List[int], RunResult], None]] = None) -> Dict[str, int]:
    """Stateless DFS over scheduling choices. `run_with_prefix(prefix)` must run the scenario from
    scratch following `prefix` (indices into the sorted enabled sets) and then index 0.  Every
    alternative at every choice point beyond the prefix is pushed; exploration stops after `budget`
    runs (the frontier is sampled at random when an rng is given, so that a truncated search is not
    confined to the deepest choice points)."""
    stack: List[List[int]] = [[]]
    runs = 0
    while stack and runs < budget:
        if rng is not None and len(stack) > 1:
            k = rng.randrange(len(stack))
            stack[k], stack[-1] = stack[-1], stack[k]
        prefix = stack.pop()
        res = run_with_prefix(prefix)
        runs += 1
        if on_run:
            on_run(prefix, res)
        ch = res.choices
        for i in range(len(prefix), len(ch)):
            for alt in range(1, ch[i][1]):
                stack.append([c[0] for c in ch[:i]] + [alt])
    return {"runs": runs, "frontier_left": len(stack)}
